"""C17 — power inside a battery pool's advertised bounds is never rejected as out of bounds.

One case = battery sets (1-3 batteries x 1-3 inverters each, any number of sets), the latest message of every
component (bounds, possibly NaN / not yet received), the working subset, and a list of request powers placed on /
just inside / just outside every bound that the REAL code advertised and enforces for that data.

Real code driven (no copy of its logic in this file):
  advertised : `LatestMetricsFetcher.fetch_next` (NaN -> missing) -> `PowerBoundsCalculator.calculate` -> `SystemBounds`
               (+ `Power in SystemBounds`);
  enforced   : `_get_battery_inverter_mappings` on a real component graph -> `BatteryManager._get_components_data`
               -> `_get_bounds`, and `_get_distribution` (=> `_check_request`) per power and `adjust_power` flag;
  min powers : `_inclusion_exclusion_bounds` + `_compute_battery_availability_ratio` of the distribution algorithm.

Oracle (independent of the Lean model; evaluated on cases with complete, consistent data — the property's domain):
  incl-equal      advertised inclusion bounds == enforced inclusion bounds;
  excl-dominated  advertised.excl_lower <= enforced.excl_lower and enforced.excl_upper <= advertised.excl_upper;
  accept          every power p != 0 with incl_lower <= p <= incl_upper and not (excl_lower < p < excl_upper)
                  (advertised values) is answered "ok" for adjust_power = True and False — never OutOfBounds/Error;
                  the same for every p != 0 with `Power(p) in SystemBounds` (the literal container test);
  min-power       such a p > 0 is >= the sum of the groups' consume-side min_power, p < 0: -p >= supply-side sum.
Irregular topologies (chains, partially shared inverters): the battery sets are whatever the real maps derive; when
they overlap (regime `OverlappingBatterySets`, computed from the graph alone) the min-power clause is a known finding.
Streamed path (histories): ONE real `SendOnUpdate(PowerBoundsCalculator)` (asyncio tasks, virtual clock, mocked API
channels — what `BatteryPool._system_power_bounds` is made of) is fed with sequences of component data (slow drifts
< 0.1 % per sample that accumulate, jumps, repeats, one component changing while the others stay); after every
sample, once the update interval has elapsed, the bounds it STREAMED take the place of `adv` in the clauses above
and are checked against the real manager on the latest data (`C17_stream_is_latest` is the model side; a case with a
`stream` key = the last sample of such a history, replayable).
Histories also carry message timestamps equal to / older than the component's previous one (arrival order decides
what the latest data is, on both sides), delayed components and components that stop for longer than the 2 s data age
and resume (while a component is silent that long the pool drops its set: not "the same complete data", not judged).
Batteries may report capacity 0 (complete, NaN-free data): the bounds clauses are judged as always; when EVERY
participating battery does, the distribution algorithm defines no min powers and answers requests with Error (not
OutOfBounds) — counted as an observation, compared with nothing (capacity > 0 is C01's domain).
A small stream also runs the real `SendOnUpdate(PowerBoundsCalculator)` with its asyncio tasks on the virtual clock
and requires the streamed `SystemBounds` to equal the one computed through the synchronous seam.
Correspondence: the same case through `Drivers/PoolBounds.lean`, all outputs compared exactly (rationals as n/d);
every 8th case is re-run on IEEE doubles (float-vs-exact sweep, reported as `float_gap_max_rel`).
"""
from __future__ import annotations

import json
import pathlib
import random
from fractions import Fraction

from . import pool_gen as g
from .common import Ctx, python_flags

RULE = ("1-4 battery sets of 1-3 batteries x 1-3 inverters; per-component bounds from the lattice "
        "{0,1/2,1,5,10,25,50,100,250,1000}; 80% consistent+complete data (oracle domain), the rest inconsistent or "
        "damaged (missing message, NaN metric, SoC NaN, non-working batteries; model = code only); request powers = "
        "every advertised and enforced bound ± {0, 1/1024, 1/2, 1} plus 0, ±2^-31, ±2^-29; 8% irregular (chained / partially "
        "shared) topologies whose battery sets are the ones the real maps derive (overlapping sets = regime "
        "OverlappingBatterySets).  non-trivial = oracle-domain case with >= 2 components in some set and "
        "a non-degenerate exclusion zone; distinct by canonical JSON hash.  Plus histories of 3-9 samples on a fixed "
        "topology through ONE real SendOnUpdate(PowerBoundsCalculator) (asyncio tasks, virtual clock): drifts of 1/1500.."
        "1/20000 per sample that accumulate, jumps, repeats, one component changing while the others stay; after every "
        "sample the STREAMED bounds are checked against the real manager on the latest data; half of the histories also "
        "vary message timestamps and arrival: one sample stamped older than / equal to its predecessor, runs of decreasing "
        "timestamps, components delayed for 1-3 samples (< 2 s data age) or stopped for > 2 s and resumed (samples during "
        "such a silence are outside 'the same complete data' and not judged), each followed by tighter bounds of that "
        "component.  14% of the cases carry batteries reporting capacity 0 (one battery / a whole set / every set; every "
        "set = the algorithm defines no min powers: oracle only).  Plus histories with tiny relative changes of ONE bound per "
        "sample (1e-7, 1e-8, 1e-10, 1e-12, 2^-52; of one component or of its whole set; probes exactly on the new and the "
        "previously streamed bound) and long drifts of one 1:1 set over 150-400 samples (every 60th sample judged)")


def anchors_of(adv: dict | None, enf: dict | None) -> list[Fraction]:
    out = []
    for b in (adv, enf):
        if isinstance(b, dict):
            out += [Fraction(b[k]) for k in ("il", "el", "eu", "iu")]
    return sorted(set(out))


def oracle(ctx: Ctx, case: dict, impl: dict, regime: str | None = None) -> None:
    adv, enf = impl["adv"], impl["enf"]
    if adv is None and enf is None:
        return  # no working battery set at all: nothing advertised, nothing to accept
    if adv is None or not isinstance(enf, dict):
        ctx.violation("incl-equal", case, {"adv": adv, "enf": enf, "why": "bounds present on one side only"})
        return
    a = {k: Fraction(v) for k, v in adv.items()}
    e = {k: Fraction(v) for k, v in enf.items()}
    if a["il"] != e["il"] or a["iu"] != e["iu"]:
        ctx.violation("incl-equal", case, {"adv": adv, "enf": enf})
    if not (a["el"] <= e["el"] and e["eu"] <= a["eu"]):
        ctx.violation("excl-dominated", case, {"adv": adv, "enf": enf})
    # the groups' min powers are the distribution algorithm's own; it refuses to form them when the participating sets
    # report no capacity at all (capacity > 0 is C01's domain, which this property's quantifier refers to)
    mc, ms = (Fraction(x) for x in impl["minp"]) if impl["minp"] is not None else (None, None)
    for p_s, contains, row in zip(case["powers"], impl["contains"], impl["req"]):
        p = Fraction(p_s)
        if p == 0:
            continue
        inside = a["il"] <= p <= a["iu"] and not a["el"] < p < a["eu"]
        if contains and not inside:
            ctx.violation("contains-vs-open-zone", case, {"power": p_s, "adv": adv})
        if not inside:
            continue
        for flag, ans in zip(("adjust", "no-adjust"), row):
            if ans != "ok":
                ctx.violation("accept", case, {"power": p_s, "adjust_power": flag == "adjust", "answer": ans,
                                               "adv": adv, "enf": enf})
        # only this clause goes through the id-keyed `excl_bounds` dict, which overlapping battery sets corrupt
        if mc is None:
            continue
        if p > 0 and p < mc:
            ctx.violation("min-power", case, {"power": p_s, "sum_min_power_consume": impl["minp"][0], "adv": adv},
                          regime=regime)
        if p < 0 and -p < ms:
            ctx.violation("min-power", case, {"power": p_s, "sum_min_power_supply": impl["minp"][1], "adv": adv},
                          regime=regime)


def tags_of(groups: list[dict], impl: dict, domain: bool) -> tuple[list[str], bool]:
    tags = ["domain" if domain else "outside-domain"]
    if any(len(gr["bats"]) > 1 for gr in groups):
        tags.append("multi-battery-set")
    if any(len(gr["invs"]) > 1 for gr in groups):
        tags.append("multi-inverter-set")
    if any(not b["working"] for gr in groups for b in gr["bats"]):
        tags.append("non-working")
    if not g.is_complete(groups):
        tags.append("incomplete")
    zero = [all(b.get("cap") == "0" for b in gr["bats"]) for gr in groups]
    if any(b.get("cap") == "0" for gr in groups for b in gr["bats"]):
        tags.append("capacity-0:every-set" if all(zero) else "capacity-0:a-whole-set" if any(zero) else "capacity-0:one-battery")
    if impl["enf"] == "unmodelled":
        tags.append("manager-nan-excl(calculator only)")
    if impl["adv"] is None:
        tags.append("adv-none")
    adv, enf = impl["adv"], impl["enf"]
    strict = False
    if isinstance(adv, dict) and isinstance(enf, dict):
        if adv["el"] != enf["el"] or adv["eu"] != enf["eu"]:
            tags.append("adv-excl-strictly-wider")
            strict = True
        for row, name in ((impl["req"], "req"),):
            flat = [x for r in row for x in r]
            if "oob" in flat:
                tags.append("some-oob")
            if "ok" in flat:
                tags.append("some-ok")
    nontrivial = domain and isinstance(adv, dict) and (adv["el"] != "0" or adv["eu"] != "0") and \
        any(len(gr["bats"]) + len(gr["invs"]) > 2 for gr in groups)
    if strict and domain:
        nontrivial = True
    return tags, nontrivial


def check_groups(ctx: Ctx, groups: list[dict], rng: random.Random, powers: list[str] | None = None) -> tuple[dict, dict]:
    bats, invs = g.flat(groups)
    run_mgr = not g.manager_unmodelled(groups)

    def power_fn(adv, enf):
        return g.boundary_powers(rng, anchors_of(adv, enf), k=18)

    domain = run_mgr and g.is_complete(groups) and g.is_consistent(groups)
    try:
        impl = g.run_c17_impl(bats, invs, g.group_edges(groups), powers if powers is not None else power_fn, run_manager=run_mgr)
    except Exception as e:  # pylint: disable=broad-except  # the real code raised: an observation, not a harness failure
        case = {"groups": groups, "powers": powers or []}
        impl = {"raised": type(e).__name__}
        if domain:
            ctx.violation("raised", case, {"error": f"{type(e).__name__}: {e}"[:300]})
        ctx.case(case, tags=["real-code-raised"], nontrivial=False)
        return case, impl
    case = {"groups": groups, "powers": impl.pop("powers")}
    if ctx.evaluations % 8 == 0:
        # float-vs-exact sweep: the same case on IEEE doubles; bounds must agree, verdicts are compared as a measure
        with g.float_pass():
            fl = g.run_c17_impl(bats, invs, g.group_edges(groups), case["powers"], run_manager=run_mgr)
        gap = 0.0
        for key in ("adv", "enf"):
            if isinstance(impl[key], dict) and isinstance(fl[key], dict):
                gap = max([gap] + [g.rel_gap(impl[key][k], fl[key][k]) for k in ("il", "el", "eu", "iu")])
            elif impl[key] != fl[key]:
                gap = float("inf")
        ctx.extra["float_gap_max_rel"] = max(ctx.extra.get("float_gap_max_rel", 0.0), gap)
        ctx.extra["float_runs"] = ctx.extra.get("float_runs", 0) + 1
        if fl["req"] != impl["req"] or fl["contains"] != impl["contains"]:
            ctx.extra["float_verdict_differences"] = ctx.extra.get("float_verdict_differences", 0) + 1
            ctx.note(f"float sensitivity: request verdicts differ between the float and the exact run on {case}")
    if domain:
        oracle(ctx, case, impl)
    tags, nontrivial = tags_of(groups, impl, domain)
    if impl.pop("total_capacity_zero", False):
        # every participating battery reports capacity 0: the bounds clauses are judged as always; the algorithm answers
        # a request with Error ("All batteries have capacity 0.") — not OutOfBounds — and defines no min powers, which
        # the model (capacity > 0) has no counterpart for: oracle only
        ctx.case(case, tags=tags + ["total-capacity-0(oracle only)"], nontrivial=False)
        if domain and "error" in impl.get("dist", []):
            ctx.extra["observation_total_capacity_0_answered_Error"] = ctx.extra.get("observation_total_capacity_0_answered_Error", 0) + 1
        return None, None
    ctx.case(case, tags=tags, nontrivial=nontrivial)
    return case, impl


def gen_irregular(rng: random.Random) -> dict:
    """Complete, consistent data on an arbitrary bipartite inverter/battery graph (chains, partial sharing)."""
    nb, ni = rng.randint(2, 4), rng.randint(2, 4)
    bats = [{"id": 11 + k, "working": rng.random() < 0.85, "has": True, "soc_ok": True, **g.gen_component_bounds(rng, True)}
            for k in range(nb)]
    invs = [{"id": 101 + k, "has": True, **g.gen_component_bounds(rng, True)} for k in range(ni)]
    edges = set()
    for b in bats:
        edges.add((rng.choice(invs)["id"], b["id"]))
    for i in invs:
        edges.add((i["id"], rng.choice(bats)["id"]))
    for _ in range(rng.randint(0, 3)):
        edges.add((rng.choice(invs)["id"], rng.choice(bats)["id"]))
    return {"bats": bats, "invs": invs, "edges": [list(e) for e in sorted(edges)]}


def overlapping_sets(topo: dict) -> bool:
    """Regime `OverlappingBatterySets` (from the input only): two working batteries share an inverter but not all
    of them, so the sets `bat_bats_map[b]` of the real code overlap without being equal."""
    inv_of: dict[int, set[int]] = {b["id"]: set() for b in topo["bats"]}
    bats_of: dict[int, set[int]] = {i["id"]: set() for i in topo["invs"]}
    for i, b in topo["edges"]:
        inv_of[b].add(i)
        bats_of[i].add(b)
    sets = {b["id"]: frozenset(x for i in inv_of[b["id"]] for x in bats_of[i]) for b in topo["bats"] if b["working"]}
    vals = list(set(sets.values()))
    return any(a != c and a & c for k, a in enumerate(vals) for c in vals[k + 1:])


def check_irregular(ctx: Ctx, topo: dict, rng: random.Random, powers: list[str] | None = None) -> tuple[dict, dict]:
    def power_fn(adv, enf):
        return g.boundary_powers(rng, anchors_of(adv, enf), k=18)

    impl = g.run_c17_impl(topo["bats"], topo["invs"], [tuple(e) for e in topo["edges"]],
                          powers if powers is not None else power_fn, derive=True)
    by_b = {b["id"]: b for b in topo["bats"]}
    by_i = {i["id"]: i for i in topo["invs"]}
    derived = impl.pop("derived")
    regime = "OverlappingBatterySets" if overlapping_sets(topo) else None
    if derived is None:
        # calculator and manager (or the harness' reading of them) do not form the same battery sets: the model has no
        # input for that; the oracle still compares the two real sides
        case = {"topology": topo, "powers": impl.pop("powers")}
        oracle(ctx, case, impl, regime=regime)
        ctx.case(case, tags=["irregular-topology", "battery-sets-differ-between-sides(oracle only)"], nontrivial=True)
        ctx.note("battery sets derived by the calculator and by the manager differ on some topology (oracle only there)")
        return None, None
    groups = [{"bats": [by_b[b] for b in bs], "invs": [by_i[i] for i in is_]} for bs, is_ in derived]
    case = {"topology": topo, "groups": groups, "powers": impl.pop("powers")}
    oracle(ctx, case, impl, regime=regime)
    ctx.case(case, tags=["irregular-topology", "overlapping-sets" if regime else "irregular-but-disjoint-sets"], nontrivial=True)
    return case, impl


# ---- the streamed path: histories of component data through the real SendOnUpdate
def gen_stream_steps(rng: random.Random) -> list[list[dict]]:
    """A history of 3-9 samples of complete, consistent data on a fixed topology: slow drifts (every bound of one or of
    all components moves by 1/1500 … 1/20000 per sample and keeps going, so the total grows while each step stays
    below any "noise" threshold), jumps to new lattice values, repeats, one component changing while the others
    stay, a drift that stops."""
    import copy

    for _ in range(20):
        groups = g.gen_c17_groups(rng, True, incomplete=0.0)
        if g.is_complete(groups) and g.is_consistent(groups) and not g.manager_unmodelled(groups) \
                and all(b["working"] for gr in groups for b in gr["bats"]):
            break
    else:
        for gr in groups:
            for b in gr["bats"]:
                b["working"] = True
    steps = [groups]
    comps = lambda gs: [c for gr in gs for c in gr["bats"] + gr["invs"]]  # noqa: E731
    mode = rng.choice(["drift-one", "drift-one", "drift-all", "drift-then-stop", "mixed", "mixed", "jump", "repeat"])
    eps = Fraction(1, rng.choice([1500, 2000, 2000, 5000, 20000]))
    target = rng.randrange(len(comps(groups)))
    keys = rng.choice([("il", "el", "eu", "iu"), ("il", "iu"), ("el", "eu"), ("iu",), ("eu",), ("il", "iu")])
    grow = rng.random() < 0.3
    n = rng.randint(3, 9)
    for k in range(1, n):
        nxt = copy.deepcopy(steps[-1])
        cs = comps(nxt)
        kind = mode
        if mode == "mixed":
            kind = rng.choice(["drift-one", "drift-all", "jump", "repeat", "drift-one"])
        if mode == "drift-then-stop" and k > n // 2:
            kind = "repeat"
        chosen = [cs[target]] if kind in ("drift-one", "drift-then-stop") else (cs if kind == "drift-all" else [])
        for c in chosen:
            for key in keys:
                v = Fraction(c[key])
                # inclusion bounds shrink / exclusion bounds grow (or the other way round), staying ordered
                f = (1 + eps) if (key in ("el", "eu")) != grow else (1 - eps)
                c[key] = g.out_rat(v * f) if hasattr(g, "out_rat") else str(v * f)
        if kind == "jump":
            c = rng.choice(cs)
            c.update(g.gen_component_bounds(rng, True))
        if not g.is_consistent(nxt):
            nxt = copy.deepcopy(steps[-1])
        steps.append(nxt)
    if rng.random() < 0.5:
        steps = decorate_history(rng, steps)
    return steps


TINY = [Fraction(1, 10**7), Fraction(1, 10**8), Fraction(1, 10**10), Fraction(1, 10**12), Fraction(1, 2**52)]


def gen_tiny_history(rng: random.Random, long: bool = False) -> list[list[dict]]:
    """Tiny relative changes (1e-7 … 1e-12, 1 ulp = 2^-52) of ONE bound per sample: of one component, or of that bound
    of every component of its battery set (so the set's aggregate moves whichever side binds).  Short histories of 3-6
    samples, or — `long` — one 1:1 set drifting for hundreds of samples (each step far below any tolerance, the total
    not).  The requests of every judged sample sit exactly on the new and on the previously streamed bound values."""
    import copy

    for _ in range(40):
        groups = g.gen_c17_groups(rng, True, incomplete=0.0)
        if long:
            groups = groups[:1]
            groups[0]["bats"], groups[0]["invs"] = groups[0]["bats"][:1], groups[0]["invs"][:1]
        if g.is_complete(groups) and g.is_consistent(groups) and not g.manager_unmodelled(groups) \
                and all(b["working"] for gr in groups for b in gr["bats"]) \
                and not any(b.get("cap") == "0" for gr in groups for b in gr["bats"]):
            break
    key = rng.choice(["iu", "iu", "il", "il", "eu", "el"])
    gi = rng.randrange(len(groups))
    members = groups[gi]["bats"] + groups[gi]["invs"]
    if all(Fraction(c[key]) == 0 for c in members):
        key = "iu" if any(Fraction(c["iu"]) != 0 for c in members) else "il"
    whole_set = long or rng.random() < 0.6
    ti = rng.randrange(len(members))
    eps = rng.choice(TINY[:3] if long else TINY)
    shrink = key in ("il", "iu")                    # inclusion bounds shrink, exclusion bounds grow: stale = too generous
    n = rng.choice([150, 300, 400]) if long else rng.randint(3, 6)
    steps = [groups]
    base = copy.deepcopy(groups)
    for k in range(1, n):
        nxt = copy.deepcopy(steps[-1])
        ms = nxt[gi]["bats"] + nxt[gi]["invs"]
        ms0 = base[gi]["bats"] + base[gi]["invs"]
        for c, c0 in (list(zip(ms, ms0)) if whole_set else [(ms[ti], ms0[ti])]):
            # linear in the sample index: the same relative step per sample, small denominators over long histories
            v = Fraction(c0[key]) * ((1 - k * eps) if shrink else (1 + k * eps))
            c[key] = g.out_rat(v)
        if not g.is_consistent(nxt):
            nxt = copy.deepcopy(steps[-1])
        steps.append(nxt)
    return steps


def decorate_history(rng: random.Random, steps: list[list[dict]]) -> list[list[dict]]:
    """Message timestamps and arrival patterns on top of a history of values: one or two components send ONE sample
    stamped older than / equal to their previous one, or keep sending decreasing timestamps (replay after a
    reconnect), are delayed for 1-3 samples (silent for less than the 2 s data age), or stop for longer than that and
    resume; after the anomaly their bounds shrink, so a pool that lost track of the component advertises stale bounds.
    The data of a muted component is the data of its last message (the latest both sides hold)."""
    import copy

    steps = copy.deepcopy(steps)
    while len(steps) < 5:
        steps.append(copy.deepcopy(steps[-1]))
    n = len(steps)
    comps = lambda gs: [c for gr in gs for c in gr["bats"] + gr["invs"]]  # noqa: E731
    ncomp = len(comps(steps[0]))
    mode = rng.choice(["older-once", "older-once", "older-once", "equal", "older-run", "delayed", "delayed",
                       "stop-resume", "older-then-stop"])
    targets = rng.sample(range(ncomp), k=min(ncomp, rng.choice([1, 1, 2])))
    k0 = rng.randint(1, n - 3)                     # the sample of the anomaly; at least two samples follow
    fresh = lambda c, k: 100 * (k + 1) + c["id"] % 50  # noqa: E731
    for t in targets:
        if mode in ("older-once", "older-then-stop"):
            c = comps(steps[k0])[t]
            c["ts"] = fresh(c, k0 - 1) - rng.choice([1, 1, 30, 99, 5000])
        elif mode == "equal":
            c = comps(steps[k0])[t]
            c["ts"] = fresh(c, k0 - 1)
        elif mode == "older-run":
            for k in range(k0, n):
                c = comps(steps[k])[t]
                c["ts"] = fresh(c, k0 - 1) - (k - k0 + 1) * rng.choice([1, 7])
        if mode in ("delayed", "stop-resume", "older-then-stop"):
            m = rng.randint(1, 3) if mode == "delayed" else rng.randint(1, 2)
            first = k0 + (1 if mode == "older-then-stop" else 0)
            for k in range(first, min(n - 1, first + m)):
                c = comps(steps[k])[t]
                c["mute"] = True
                for key in ("il", "el", "eu", "iu"):   # nothing new arrives: the latest data is the last message's
                    c[key] = comps(steps[k - 1])[t][key]
            if mode != "delayed" and first < n - 1:
                steps[first][0]["wait"] = rng.choice(["5/2", "3", "21/10"])   # longer than the 2 s data age
        # afterwards the component reports tighter bounds (inclusion halved, exclusion kept inside)
        k1 = min(n - 1, k0 + rng.choice([1, 1, 2]))
        for k in range(k1, n):
            c = comps(steps[k])[t]
            if c.get("mute"):
                continue
            il, el, eu, iu = (Fraction(c[x]) for x in ("il", "el", "eu", "iu"))
            il, iu = il / 2, iu / 2
            c.update({"il": g.out_rat(il), "el": g.out_rat(max(el, il)), "eu": g.out_rat(min(eu, iu)), "iu": g.out_rat(iu)})
    # a muted component keeps the data of its last message in every later muted sample
    for k in range(1, n):
        for t, c in enumerate(comps(steps[k])):
            if c.get("mute"):
                for key in ("il", "el", "eu", "iu"):
                    c[key] = comps(steps[k - 1])[t][key]
    return steps


def check_stream(ctx: Ctx, steps: list[list[dict]], rng: random.Random, cases: list, outs: list,
                 powers: list[str] | None = None, only_last: bool = False, stride: int = 1) -> None:
    """Every sample of the history: the bounds streamed by the real `SendOnUpdate` after that sample vs the real manager
    on the data of that sample — the C17 clauses with `adv` := the STREAMED value (what a subscriber of the pool acts
    on), and the model (bounds of the latest data) compared with it."""
    streamed = g.run_c17_stream(steps)
    for k, (groups, st) in enumerate(zip(steps, streamed)):
        if only_last and k != len(steps) - 1:
            continue
        if stride > 1 and k % stride != 0 and k != len(steps) - 1:
            continue                              # long histories: every `stride`-th sample and the last one are judged
        silence = g.stream_silence(steps, k)
        if silence >= Fraction(19, 10):
            # some component has been silent for the data age (2 s): the pool's fetcher reports it as "stopped sending
            # data" and its battery set leaves the advertised bounds, while a manager would still hold its last message
            # — not "the same complete component data" (C16 decides what happens to such a battery); judged again as
            # soon as the component has resumed
            ctx.tags["stream:component-silent>=data-age(outside the domain)"] = ctx.tags.get(
                "stream:component-silent>=data-age(outside the domain)", 0) + 1
            continue
        bats, invs = g.flat(groups)

        def power_fn(adv, enf):
            both = anchors_of(adv, enf) + (anchors_of(st, None) if isinstance(st, dict) else [])
            return g.boundary_powers(rng, sorted(set(both)), k=14)

        impl = g.run_c17_impl(bats, invs, g.group_edges(groups), powers if (powers is not None and k == len(steps) - 1) else power_fn)
        case = {"groups": groups, "powers": impl.pop("powers"), "stream": steps[:k]}
        sync_adv = impl["adv"]
        if st == "nothing-streamed":
            ctx.violation("stream-silent", case, {"synchronous": sync_adv, "why": "nothing streamed after complete data"})
            st = None
        impl["adv"] = st
        if isinstance(st, dict):
            a = {x: Fraction(v) for x, v in st.items()}
            # `Power in SystemBounds`: inside the (closed) inclusion bounds and not inside the CLOSED exclusion bounds
            impl["contains"] = [bool(a["il"] <= Fraction(p) <= a["iu"] and not a["el"] <= Fraction(p) <= a["eu"])
                                for p in case["powers"]]
        oracle(ctx, case, impl)
        tags = ["stream", f"stream:sample-{min(k, 5)}{'+' if k >= 5 else ''}"]
        if k > 0:
            prev, cur = g.flat(steps[k - 1]), g.flat(groups)
            changed = [c1["id"] for p, c in zip(prev, cur) for c0, c1 in zip(p, c) if c0 != c1]
            tags.append("stream:unchanged-sample" if not changed else
                        ("stream:one-component-changed" if len(changed) == 1 else "stream:several-components-changed"))
            rel = [abs(Fraction(c1[x]) - Fraction(c0[x])) / abs(Fraction(c0[x])) for p, c in zip(prev, cur)
                   for c0, c1 in zip(p, c) for x in ("il", "el", "eu", "iu") if c0[x] != c1[x] and Fraction(c0[x]) != 0]
            if rel and max(rel) < Fraction(1, 10**6):
                tags.append("stream:change<1e-6-relative")
            if len(steps) >= 100:
                tags.append("stream:long-history(>=100 samples)")
            if rel and max(rel) < Fraction(1, 1000):
                tags.append("stream:drift<0.1%")
            elif rel:
                tags.append("stream:jump")
        if st != sync_adv:
            tags.append("stream:stale")
        hist = [c for gs in steps[:k + 1] for part in g.flat(gs) for c in part]
        if any("ts" in c for c in hist):
            prev_ts: dict[int, int] = {}
            kinds = set()
            for j, gs in enumerate(steps[:k + 1]):
                for c in [x for part in g.flat(gs) for x in part]:
                    if c.get("mute") or not c["has"]:
                        continue
                    ts = g.stream_ts(c, j)
                    if c["id"] in prev_ts:
                        kinds.add("older" if ts < prev_ts[c["id"]] else "equal" if ts == prev_ts[c["id"]] else "newer")
                    prev_ts[c["id"]] = ts
            tags += [f"stream:timestamp-{x}-than-previous" for x in sorted(kinds - {"newer"})]
        if any(c.get("mute") for c in hist):
            tags.append("stream:component-resumed-after-pause" if any(
                gr.get("wait") for gs in steps[:k + 1] for gr in gs) else "stream:component-delayed")
        if any(c.get("cap") == "0" for c in bats):
            tags.append("stream:capacity-0")
        if impl.pop("total_capacity_zero", False):
            ctx.case(case, tags=tags + ["total-capacity-0(oracle only)"], nontrivial=False)
            continue
        ctx.case(case, tags=tags, nontrivial=k > 0)
        cases.append(case)
        outs.append(impl)


def load_corpus() -> list[dict]:
    d = pathlib.Path(__file__).resolve().parent.parent / "corpus" / "C17"
    return [json.loads(p.read_text()) for p in sorted(d.glob("*.json"))] if d.exists() else []


def run_case_json(ctx: Ctx, case: dict, rng: random.Random, cases: list, outs: list) -> None:
    if "stream" in case:  # the last sample of a history through the real SendOnUpdate
        check_stream(ctx, list(case["stream"]) + [case["groups"]], rng, cases, outs, powers=case.get("powers"), only_last=True)
        return
    if "topology" in case:  # the battery sets ("groups") are re-derived by the real code
        c, o = check_irregular(ctx, case["topology"], rng, powers=case.get("powers"))
    else:
        c, o = check_groups(ctx, case["groups"], rng, powers=case.get("powers"))
    if c is not None:
        cases.append(c)
        outs.append(o)


def run(ctx: Ctx) -> None:
    python_flags()
    ctx.rule = RULE
    n = ctx.budget(1500, 30000)
    cases: list[dict] = []
    outs: list[dict] = []
    for c in load_corpus():
        run_case_json(ctx, c, ctx.subrng("corpus"), cases, outs)
    for i in range(n):
        rng = ctx.subrng("case", i)
        r = rng.random()
        if r < 0.08:
            c, o = check_irregular(ctx, gen_irregular(rng), rng)
            if c is not None:
                cases.append(c)
                outs.append(o)
            continue
        consistent = r < 0.9
        groups = g.gen_c17_groups(rng, consistent, incomplete=0.12 if consistent else 0.3)
        c, o = check_groups(ctx, groups, rng)
        if c is not None:
            cases.append(c)
            outs.append(o)
    # the bounds really STREAMED by `SendOnUpdate(PowerBoundsCalculator)` (asyncio tasks on the virtual clock, mocked
    # API channels) must be the ones computed through the synchronous seam above
    for i in range(ctx.budget(30, 500)):
        rng = ctx.subrng("fullstack", i)
        groups = g.gen_c17_groups(rng, True, incomplete=0.3)
        c, o = check_groups(ctx, groups, rng)
        if c is None:
            continue
        cases.append(c)
        outs.append(o)
        streamed = g.run_c17_fullstack_adv(groups)
        ctx.tags["full-stack SendOnUpdate stream"] = ctx.tags.get("full-stack SendOnUpdate stream", 0) + 1
        if "raised" not in o and streamed != o["adv"]:
            ctx.mismatch(c, {"streamed_by_SendOnUpdate": streamed}, {"synchronous_seam": o["adv"]},
                         "bounds streamed by the real SendOnUpdate vs PowerBoundsCalculator driven synchronously")
    # histories: the bounds a subscriber sees after every sample vs the manager on the same latest data
    for i in range(ctx.budget(45, 700)):
        check_stream(ctx, gen_stream_steps(ctx.subrng("stream", i)), ctx.subrng("stream-powers", i), cases, outs)
    # tiny relative changes of one bound per sample (1e-7 … 1 ulp), and long slow drifts of one 1:1 set
    for i in range(ctx.budget(25, 300)):
        check_stream(ctx, gen_tiny_history(ctx.subrng("stream-tiny", i)), ctx.subrng("stream-tiny-powers", i), cases, outs)
    for i in range(ctx.budget(2, 12)):
        check_stream(ctx, gen_tiny_history(ctx.subrng("stream-long", i), long=True), ctx.subrng("stream-long-powers", i),
                     cases, outs, stride=60)
    if ctx.tier == "thorough":
        # bounded-exhaustive small scope: two 1:1 battery sets, every combination of exclusion / inclusion bounds from a
        # small lattice on the battery and on the inverter (symmetric lower bounds), powers on/next to every bound
        lat = [(eu, iu) for eu in ("0", "10", "30") for iu in ("40", "100")]
        k = 0
        for b1 in lat:
            for i1 in lat:
                for b2 in lat:
                    for i2 in lat:
                        def comp(x):
                            return {"il": "-" + x[1], "el": "-" + x[0] if x[0] != "0" else "0", "eu": x[0], "iu": x[1]}
                        groups = [
                            {"bats": [{"id": 11, "working": True, "has": True, "soc_ok": True, **comp(b1)}],
                             "invs": [{"id": 101, "has": True, **comp(i1)}]},
                            {"bats": [{"id": 12, "working": True, "has": True, "soc_ok": True, **comp(b2)}],
                             "invs": [{"id": 102, "has": True, **comp(i2)}]}]
                        c, o = check_groups(ctx, groups, ctx.subrng("exh", k))
                        k += 1
                        cases.append(c)
                        outs.append(o)
        ctx.extra["bounded_exhaustive_cases"] = k
    ctx.compare("PoolBounds", cases, outs, what="advertised / enforced bounds, request answers, min powers")
    from . import powerpath  # full-stack stage: the same property through the public pool API (real actors)
    powerpath.run_stage(ctx, {"C17-accept"}, n_quick=40, n_thorough=500)


def replay(ctx: Ctx, data: dict) -> None:
    python_flags()
    case = data.get("case")
    if not isinstance(case, dict) or not ("groups" in case or "topology" in case):
        return run(ctx)
    cases: list[dict] = []
    outs: list[dict] = []
    run_case_json(ctx, case, ctx.subrng("replay"), cases, outs)
    if cases:
        ctx.compare("PoolBounds", cases, outs, what="replayed case")
