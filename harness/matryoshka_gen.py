"""Generators and the implementation runner for the Matryoshka power manager (C03, C04, C11)."""
from __future__ import annotations

import math
import random
from datetime import timedelta
from fractions import Fraction
from typing import Any

from .common import rat

SRC_IDS = ["a", "B", "aa", "b", "a0", "z", "Z", "ab"]
MAX_AGE = 60


def lattice(rng: random.Random) -> list[Fraction]:
    """A few anchor values; every number in a case is an anchor ± {0, 1/2, 1} — ties and
    exactly-at-bound values are therefore frequent."""
    scale = rng.choice([1, 1, 10, 100])
    anchors = sorted({Fraction(rng.randint(-12, 12) * scale) for _ in range(rng.randint(3, 6))} | {Fraction(0)})
    return anchors


def near(rng: random.Random, anchors: list[Fraction]) -> Fraction:
    a = rng.choice(anchors)
    return a + rng.choice([0, 0, 0, Fraction(1, 2), -Fraction(1, 2), 1, -1])


# Tiny magnitudes (all exactly representable doubles, written as exact rationals): float residue such as
# 0.1 + 0.2 - 0.3 = 2^-54 W, 2^-40, 2^-60, the smallest subnormal, and the doubles at / just below / just above 1e-9
# (the tolerance of the repo's `is_close_to_zero`).  "Zero or outside the exclusion zone" must hold for them as for
# any other non-zero power.
_E9 = float(1e-9)
TINY_POS = [Fraction(1, 2 ** 40), Fraction(1, 2 ** 54), Fraction(1, 2 ** 60), Fraction(1, 2 ** 1074),
            Fraction(_E9), Fraction(math.nextafter(_E9, 0.0)), Fraction(math.nextafter(_E9, 1.0))]
SUB_ULP = Fraction(1, 2 ** 45)   # below this, `zone_end - v` is not exact in doubles for lattice zone ends


def tiny(rng: random.Random) -> Fraction:
    return rng.choice(TINY_POS) * rng.choice([1, -1])


def tie_safe(v: Fraction | None, sbs: list[dict]) -> Fraction | None:
    """The sweep decides between the two zone ends with `hi - v < v - lo` in doubles.  For an exactly symmetric zone
    and 0 < v < ulp the doubles see a tie where the rationals do not; such a preference is mirrored to -v (where
    both agree) so that model, oracle and implementation stay exactly comparable."""
    if v is None or not 0 < v < SUB_ULP:
        return v
    for sb in sbs:
        if sb["excl"] is not None and Fraction(sb["excl"][0]) == -Fraction(sb["excl"][1]) != 0:
            return -v
    return v


def float_exact(x: Fraction) -> bool:
    try:
        return Fraction(float(x)) == x
    except OverflowError:
        return False


def gen_sb(rng: random.Random, anchors: list[Fraction], in_domain: bool = True) -> dict:
    """System bounds {incl:[lo,hi]|None, excl:[lo,hi]|None}; in_domain: lo<=0<=hi and 0 inside the zone."""
    r = rng.random()
    if r < 0.06:
        incl = None
    else:
        lo = min(Fraction(0), near(rng, anchors)) if in_domain else near(rng, anchors)
        hi = max(Fraction(0), near(rng, anchors)) if in_domain else near(rng, anchors)
        if rng.random() < 0.1:
            lo = Fraction(0)
        if rng.random() < 0.1:
            hi = Fraction(0)
        incl = [lo, hi]
    r = rng.random()
    if r < 0.2:
        excl = None
    elif r < 0.3:
        excl = [Fraction(0), Fraction(0)]
    else:
        elo = min(Fraction(0), near(rng, anchors)) if in_domain else near(rng, anchors)
        ehi = max(Fraction(0), near(rng, anchors)) if in_domain else near(rng, anchors)
        if rng.random() < 0.35 and in_domain:  # symmetric
            ehi = -elo
        if incl is not None and rng.random() < 0.5:
            # keep the zone mostly inside the inclusion bounds (the realistic case)
            elo = max(elo, incl[0] / 2)
            ehi = min(ehi, incl[1] / 2)
        excl = [elo, ehi]
    return {"incl": None if incl is None else [rat(incl[0]), rat(incl[1])],
            "excl": None if excl is None else [rat(excl[0]), rat(excl[1])]}


def gen_proposal(rng: random.Random, anchors: list[Fraction], now: Fraction, prios: list[int],
                 conflict_free_hint: bool = False) -> dict:
    pref = None if rng.random() < 0.25 else near(rng, anchors)
    lo = None if rng.random() < 0.45 else near(rng, anchors)
    hi = None if rng.random() < 0.45 else near(rng, anchors)
    if lo is not None and hi is not None and lo > hi and (conflict_free_hint or rng.random() < 0.8):
        lo, hi = hi, lo
    return {"prio": rng.choice(prios), "src": rng.choice(SRC_IDS), "pref": rat(pref), "lo": rat(lo), "hi": rat(hi),
            "created": rat(now)}


def gen_script(rng: random.Random, n_ops: int, in_domain: bool = True, distinct_prios: bool = False,
               tiny_values: bool = False) -> dict:
    """A script of operations on one Matryoshka instance.  tiny_values: preferences, proposal bounds and adjust
    probes are replaced by tiny non-zero magnitudes with probability ~1/3 each."""
    anchors = lattice(rng)
    prios = sorted({rng.randint(-3, 6) for _ in range(rng.randint(1, 5))})
    sb = gen_sb(rng, anchors, in_domain)
    now = Fraction(rng.randint(0, 50))
    ops: list[dict] = []
    used: dict[int, str] = {}
    for _ in range(n_ops):
        r = rng.random()
        if rng.random() < 0.12:
            sb = gen_sb(rng, anchors, in_domain)
        if r < 0.5:
            p = gen_proposal(rng, anchors, now, prios)
            if distinct_prios:
                p["src"] = used.setdefault(p["prio"], p["src"])
            if tiny_values:
                for k in ("pref", "lo", "hi"):
                    if p[k] is not None and rng.random() < (0.5 if k == "pref" else 0.25):
                        p[k] = rat(tiny(rng))
            ops.append({"op": "calc", "p": p, "sb": sb, "must": rng.random() < 0.3})
        elif r < 0.62:
            ops.append({"op": "calc", "p": None, "sb": sb, "must": rng.random() < 0.5})
        elif r < 0.72:
            now += rng.choice([0, 1, 10, 30, 59, 60, 61, Fraction(1, 2), 120])
            ops.append({"op": "drop", "now": rat(now), "maxAge": rat(MAX_AGE)})
        elif r < 0.85:
            ops.append({"op": "status", "prio": rng.choice(prios) + rng.choice([0, 0, -1, 1]), "sb": sb})
        elif r < 0.95:
            ops.append({"op": "adjust", "prio": rng.choice(prios) + rng.choice([0, 0, -1, 1]), "sb": sb,
                        "power": rat(tiny(rng) if tiny_values and rng.random() < 0.4 else near(rng, anchors))})
        else:
            ops.append({"op": "get"})
        now += rng.choice([0, 0, 1, 5, Fraction(1, 4)])
    if tiny_values:
        sbs = [op["sb"] for op in ops if "sb" in op]
        for op in ops:
            if op["op"] == "calc" and op["p"] is not None:
                op["p"]["pref"] = rat(tie_safe(fr(op["p"]["pref"]), sbs))
    return {"ops": ops}


# --------------------------------------------------------------------------- implementation side
_CIDS = frozenset({1, 2})


def _imports():
    from frequenz.quantities import Power
    from frequenz.sdk.microgrid._power_managing._base_classes import Proposal
    from frequenz.sdk.microgrid._power_managing._matryoshka import Matryoshka
    from frequenz.sdk.timeseries._base_types import Bounds, SystemBounds

    return Power, Proposal, Matryoshka, Bounds, SystemBounds


def fr(s: str | None) -> Fraction | None:
    return None if s is None else Fraction(s)


def to_power(s: str | None):
    Power = _imports()[0]
    return None if s is None else Power.from_watts(float(Fraction(s)))


def from_power(p) -> str | None:
    return None if p is None else rat(p.as_watts())


def mk_sb(sb: dict):
    Power, _, _, Bounds, SystemBounds = _imports()
    from datetime import datetime, timezone

    def b(x):
        return None if x is None else Bounds(lower=to_power(x[0]), upper=to_power(x[1]))

    return SystemBounds(timestamp=datetime.now(tz=timezone.utc), inclusion_bounds=b(sb["incl"]),
                        exclusion_bounds=b(sb["excl"]))


def mk_proposal(p: dict, set_op_point: bool = False):
    _, Proposal, _, Bounds, _ = _imports()
    return Proposal(source_id=p["src"], preferred_power=to_power(p["pref"]),
                    bounds=Bounds(lower=to_power(p["lo"]), upper=to_power(p["hi"])),
                    component_ids=_CIDS, priority=p["prio"], creation_time=float(Fraction(p["created"])),
                    set_operating_point=set_op_point)


def new_manager():
    Matryoshka = _imports()[2]
    return Matryoshka(max_proposal_age=timedelta(seconds=MAX_AGE))


def run_op_impl(m, op: dict) -> Any:
    """Execute one script op on a real Matryoshka; canonical result (same shape as the Lean driver)."""
    kind = op["op"]
    if kind == "calc":
        p = None if op["p"] is None else mk_proposal(op["p"])
        return from_power(m.calculate_target_power(_CIDS, p, mk_sb(op["sb"]), op["must"]))
    if kind == "drop":
        assert Fraction(op["maxAge"]) == MAX_AGE
        m.drop_old_proposals(float(Fraction(op["now"])))
        return None
    if kind == "status":
        return report_json(m.get_status(_CIDS, op["prio"], mk_sb(op["sb"])))
    if kind == "adjust":
        rep = m.get_status(_CIDS, op["prio"], mk_sb(op["sb"]))
        lo, hi = rep.adjust_to_bounds(to_power(op["power"]))
        return [from_power(lo), from_power(hi)]
    if kind == "get":
        return from_power(m.get_target_power(_CIDS))
    raise ValueError(kind)


def get_report(m, prio: int, sb: dict):
    """The real `_Report` object an actor of priority `prio` is sent (one `get_status` call)."""
    return m.get_status(_CIDS, prio, mk_sb(sb))


def adjust_on(rep, x: Fraction) -> list:
    """`adjust_to_bounds(x)` on an already obtained report (no further manager call)."""
    lo, hi = rep.adjust_to_bounds(to_power(rat(x)))
    return [from_power(lo), from_power(hi)]


def report_json(rep) -> dict:
    """Canonical form of a report (same shape as the Lean driver's `status` output)."""
    b = rep.bounds
    return {"target": from_power(rep.target_power), "lo": None if b is None else from_power(b.lower),
            "hi": None if b is None else from_power(b.upper)}


def report_bounds(rep) -> tuple[Fraction, Fraction] | None:
    b = rep.bounds
    return None if b is None else (Fraction(b.lower.as_watts()), Fraction(b.upper.as_watts()))


def run_script_impl(script: dict) -> tuple[Any, dict]:
    m = new_manager()
    outs = [run_op_impl(m, op) for op in script["ops"]]
    return m, {"out": outs}


def sb_in_domain(sb: dict) -> bool:
    """The quantifier of C03/C04: lower <= 0 <= upper and an exclusion zone that contains 0."""
    if sb["incl"] is not None:
        lo, hi = map(Fraction, sb["incl"])
        if not lo <= 0 <= hi:
            return False
    if sb["excl"] is not None:
        lo, hi = map(Fraction, sb["excl"])
        if not lo <= 0 <= hi:
            return False
    return True


def live_proposals(ops: list[dict], upto: int) -> list[dict]:
    """Reference semantics: the latest proposal per (prio, src) that no executed drop has expired."""
    live: dict[tuple[int, str], dict] = {}
    bucket_exists = False
    for op in ops[:upto]:
        if op["op"] == "calc" and op["p"] is not None:
            # a calc that fails validation (no bucket yet and no bounds at all) ignores the proposal
            if not bucket_exists and op["sb"]["incl"] is None and op["sb"]["excl"] is None:
                continue
            bucket_exists = True
            live[(op["p"]["prio"], op["p"]["src"])] = op["p"]
        elif op["op"] == "drop":
            now = Fraction(op["now"])
            for k in [k for k, p in live.items() if now - Fraction(p["created"]) > MAX_AGE]:
                del live[k]
    return list(live.values())
