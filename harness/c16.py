"""C16 — a battery is reported usable only while its data proves it healthy.

Streams of cases (all run on the REAL code of the repo and on the Lean model `Drivers/BatteryStatus.lean`):
  sync   : event histories through the real `BatteryStatusTracker._run` loop body (scripted `select`), compared event by
           event with the model (`step`), final blocking/timer state included; event-driven oracle (safety of the facts,
           promptness, back-off closed form, notifications on change);
  actor  : the tracker running as an actor on a virtual clock with real `Timer`s and channels: (a) predicted by the model
           with simulated timers (`astep`), (b) the observed dispatch order replayed through `step`; time-based oracle at
           every observation instant: usable ⇒ latest messages healthy and younger than max age, by arrival and by
           their own timestamp (the literal statement);
  pool   : real `ComponentPoolStatusTracker` with a stub tracker type (arbitrary status sequences) and with real battery
           trackers; selection oracle (uncertain components only when no working one is requested);
  exh    : (thorough) every history of ≤ 6 letters over a 9-letter alphabet through the real `_run`, vs the model.

Known-finding regimes (tag computed from the INPUT: the latest message of the offending stream):
  StaleOnArrival  = its timestamp is older than its arrival time  (literal, timestamp-age safety fails)
  FutureTimestamp = its timestamp is later than its arrival time  (the `continue` guard swallows the silence tick)
"""
from __future__ import annotations

import copy
import json
import pathlib
import time
from typing import Any

from . import battery_status_gen as g
from .common import Ctx, LeanDriverError, canon, lean_run, python_flags

DRIVER = "BatteryStatus"
RULE = ("sync: 4-25 events (battery/inverter messages healthy or faulty in one way, fresh / stale-on-arrival / "
        "future-stamped, timer ticks mostly exactly one max-age after the stream's last arrival, set-power results) with "
        "time steps from {0, 1/8 s, 1 s, 2 s, 4 s, maxAge-1/8, maxAge, maxAge+1/8, block expiry-1/8, expiry, expiry+1/8}; "
        "actor: 4-20 timed actions on a 1/8 s grid with real timers; pool: 3-15 status/selection ops, 3 batteries; "
        "pool with real trackers: 40% of the set-power actions are BURSTS of 2-4 results (sometimes with a data message) "
        "published in one event-loop step with different failed/succeeded sets; "
        "long failure runs (sync and actor): a healthy battery with 50-80 consecutive failed commands, each at / just after "
        "the expiry of the previous block, then a success and a failure (back-off starts over); "
        "non-trivial = the battery is reported WORKING at least once and the case contains a disqualifying event, an "
        "effective failure or a non-punctual timestamp; distinct by canonical JSON hash")

CORPUS = pathlib.Path(__file__).resolve().parent.parent / "corpus" / "C16"


# --------------------------------------------------------------------------- model access
def model(ctx: Ctx, cases: list[dict]) -> list[Any] | None:
    if not ctx.model_available or not cases:
        return None
    try:
        return lean_run(DRIVER, cases)
    except LeanDriverError as e:
        ctx.model_available = False
        ctx.extra["driver_error"] = str(e)[:1500]
        ctx.mismatch({"driver": DRIVER}, None, None, f"model driver unavailable: {str(e)[:300]}")
        return None


def diff(ctx: Ctx, cases: list[dict], impl: list[Any], mod: list[Any] | None, what: str) -> None:
    if mod is None:
        return
    for c, i, m in zip(cases, impl, mod):
        ctx.traces_validated += 1
        if canon(i) != canon(m):
            ctx.mismatch(c, i, m, what)


# --------------------------------------------------------------------------- sync seam
def sync_oracle(case: dict, out: dict) -> g.EventOracle:
    orc = g.EventOracle(case["maxAge"], case["maxBlk"])
    for i, (ev, o) in enumerate(zip(case["events"], out["out"])):
        orc.feed(i, ev, o)
    if "crash" in out:  # after the clauses of the property text, so that those name the failing input first
        orc.violations.append(("crash: the select loop raised", {"at": out["crash"]}, None))
    return orc


def shrink_sync(case: dict, clause: str) -> dict:
    """Greedy shrink of a failing sync case: cut after the failing event, then drop events one at a time."""
    def fails(c: dict) -> bool:
        try:
            o = g.run_sync(c)
        except Exception:  # pylint: disable=broad-except
            return False
        return any(v[0].split(":")[0] == clause.split(":")[0] and v[2] is None for v in sync_oracle(c, o).violations)

    cur = case
    if len(case["events"]) > 40:  # a long history: only cut it after the failing event (bisection)
        lo, hi = 1, len(case["events"])
        while lo < hi:
            mid = (lo + hi) // 2
            if fails(dict(case, events=case["events"][:mid])):
                hi = mid
            else:
                lo = mid + 1
        c = dict(case, events=case["events"][:lo])
        return c if fails(c) else case
    for n in range(1, len(case["events"]) + 1):
        c = dict(case, events=case["events"][:n])
        if fails(c):
            cur = c
            break
    changed = True
    while changed and len(cur["events"]) > 1:
        changed = False
        for j in range(len(cur["events"]) - 1, -1, -1):
            c = dict(cur, events=cur["events"][:j] + cur["events"][j + 1:])
            if c["events"] and fails(c):
                cur, changed = c, True
                break
    return cur


def guarded(ctx: Ctx, case: dict, fn: Any, *args: Any) -> Any:
    """Run the real code; a harness-level exception (e.g. the constructor rejects the configuration) becomes an
    output the model cannot reproduce instead of crashing the whole check."""
    try:
        return fn(*args)
    except Exception as e:  # pylint: disable=broad-except
        ctx.case(case, tags=["impl-error:" + type(e).__name__], nontrivial=False)
        return {"error": type(e).__name__}


def check_sync(ctx: Ctx, case: dict, shrink_budget: list[int]) -> dict:
    out = g.run_sync(case)
    orc = sync_oracle(case, out)
    for clause, obs, regime in orc.violations:
        c = case
        if regime is None and shrink_budget[0] > 0:
            shrink_budget[0] -= 1
            c = shrink_sync(case, clause)
        ctx.violation(clause, c, obs, regime)
    tags = set(orc.tags)
    nontrivial = "reached-working" in tags and bool(tags & {"unhealthy-msg", "silence-tick", "block", "stale-on-arrival",
                                                            "future-ts", "stale-rejected"})
    ctx.case(case, tags=sorted("sync:" + t for t in tags), nontrivial=nontrivial)
    return out


# --------------------------------------------------------------------------- actor seam

def _stable_instant_sort(log: list[list]) -> list[list]:
    out: list[list] = []
    i = 0
    while i < len(log):
        j = i
        while j < len(log) and log[j][0] == log[i][0]:
            j += 1
        grp = log[i:j]
        if all(e[1] in ("batT", "invT") for e in grp):
            grp = sorted(grp, key=lambda e: e[1])
        out.extend(grp)
        i = j
    return out


def has_race(log: list[list]) -> bool:
    """A timer tick and another event were delivered at the same instant (their order is the scheduler's choice)."""
    by_t: dict[int, set] = {}
    for t, k in log:
        by_t.setdefault(t, set()).add(k in ("batT", "invT"))
    return any(len(v) == 2 for v in by_t.values())


def check_actor(ctx: Ctx, case: dict) -> tuple[dict, dict, bool]:
    out = g.run_actor(case)
    viol = g.time_oracle(case, out["_observed"])
    # notifications only on change
    prev = g.NW
    for t, st in out["notes"]:
        if st == prev:
            viol.append(("on-change: notification equals the previous one", {"t": t, "status": st}, None))
        prev = st
    viol += g.actor_backoff_oracle(case, out["notes"])
    for clause, obs, regime in viol:
        ctx.violation(clause, case, obs, regime)
    race = has_race(out["log"])
    tags = {"actor"}
    if race:
        tags.add("actor:race")
    if g.actor_msg_on_tick(case):
        tags.add("actor:msg-on-tick")
    delays = [a["ev"].get("delay", 0) for a in case["actions"] if a.get("ev") and a["ev"]["k"] in ("bat", "inv")]
    if any(d > 0 for d in delays):
        tags.add("actor:stale-on-arrival")
    if any(d < 0 for d in delays):
        tags.add("actor:future-ts")
    if any(st == g.UN for _, st in out["notes"]):
        tags.add("actor:uncertain")
    if any(k in ("batT", "invT") for _, k in out["log"]) and any(st == g.NW for _, st in out["notes"]):
        tags.add("actor:timeout-or-fault")
    ctx.case(case, tags=sorted(tags), nontrivial=any(st == g.WK for _, st in out["notes"]))
    impl = {"notes": out["notes"], "log": _stable_instant_sort(out["log"]), "final": out["final"]}
    replay_case = g.dispatch_to_sync_case(case, out["_dispatch"])
    return impl, {"case": replay_case, "notes": out["notes"], "last": out["final"]["last"]}, race


# --------------------------------------------------------------------------- pool
def gen_pool_fold(rng: Any) -> dict:
    ops = []
    for _ in range(rng.randint(3, 15)):
        if rng.random() < 0.6:
            ops.append({"id": rng.choice([9, 19, 29]), "st": rng.choice([g.NW, g.UN, g.WK, g.WK])})
        else:
            ops.append({"get": sorted(rng.sample([9, 19, 29], rng.randint(0, 3)))})
    return {"mode": "pool", "ops": ops}


def pool_fold_oracle(ctx: Ctx, case: dict, out: dict) -> None:
    latest: dict[int, str] = {}
    for op, o in zip(case["ops"], out["out"]):
        if "get" in op:
            req = set(op["get"])
            working = {i for i in req if latest.get(i) == g.WK}
            uncertain = {i for i in req if latest.get(i) == g.UN}
            expect = sorted(working) if working else sorted(uncertain)
            if o != expect:
                ctx.violation("pool: get_working_components", case, {"op": op, "got": o, "expected": expect})
        else:
            latest[op["id"]] = op["st"]
            expect_sets = {"w": sorted(i for i, s in latest.items() if s == g.WK),
                           "u": sorted(i for i, s in latest.items() if s == g.UN)}
            if o != expect_sets:
                ctx.violation("pool: published working/uncertain sets", case, {"op": op, "got": o, "expected": expect_sets})


def gen_pool_actor(rng: Any) -> dict:
    steady = rng.random() < 0.5
    max_age = 5 * g.SEC if steady else rng.choice([2 * g.SEC, 5 * g.SEC])
    bats = [9, 19, 29]
    t = 0
    actions = []
    residue = {9: 1, 19: 2, 29: 3}
    for _ in range(rng.randint(5, 16)):
        r = rng.random()
        t += rng.choice([g.SEC, g.SEC, 2 * g.SEC, 2 * g.SEC if steady else max_age + g.SEC])
        base = t // (8 * g.Q) * (8 * g.Q)
        req = sorted(rng.sample(bats, rng.randint(1, 3)))
        if r < 0.6:
            b = rng.choice(bats)
            kind = rng.choice(["bat", "inv"])
            ev = g.gen_facts(rng, kind, max_age, p_bad=0.04 if steady else 0.12)
            ev["delay"] = 0
            actions.append({"t": base + residue[b] * g.Q + (4 * g.Q if kind == "inv" else 0), "bat": b, "ev": ev, "req": req})
        elif r < 0.85:
            def one_result() -> dict:
                fail = rng.sample(bats, rng.randint(0, 2))
                succ = [b for b in bats if b not in fail and rng.random() < 0.5]
                return {"k": "sp", "succ": sorted(succ), "fail": sorted(fail)}
            if rng.random() < 0.4:
                # burst: 2-4 results (sometimes with a data message) published in one event-loop step
                evs = [one_result() for _ in range(rng.randint(2, 4))]
                if rng.random() < 0.25:
                    ev = g.gen_facts(rng, rng.choice(["bat", "inv"]), max_age, p_bad=0.12)
                    ev["delay"] = 0
                    ev["bat"] = rng.choice(bats)
                    evs.insert(rng.randint(0, len(evs)), ev)
                actions.append({"t": base + 7 * g.Q, "evs": evs, "req": req})
            else:
                actions.append({"t": base + 7 * g.Q, "ev": one_result(), "req": req})
        else:
            actions.append({"t": base, "ev": None, "req": req})
    if steady:  # keep every battery alive: fresh healthy data on all streams every 2 s (unless the slot is taken)
        good = {"bat": dict(g.GOOD_BAT, delay=0), "inv": dict(g.GOOD_INV, delay=0)}
        for base in range(0, t + 2 * g.SEC, 2 * g.SEC):
            for b in bats:
                for kind, off in (("bat", 0), ("inv", 4 * g.Q)):
                    actions.append({"t": base + residue[b] * g.Q + off, "bat": b, "ev": good[kind], "req": bats})
    actions.sort(key=lambda a: a["t"])  # stable: a generated action wins over a refresh in the same slot
    ded, seen = [], set()
    for a in actions:
        if a["t"] not in seen and a["t"] > 0:
            seen.add(a["t"])
            ded.append(a)
    ded.append({"t": ded[-1]["t"] + 2 * max_age + 8 * g.Q, "ev": None, "req": bats})
    return {"mode": "poolactor", "maxAge": max_age, "maxBlk": rng.choice([g.SEC, 4 * g.SEC]), "ts0": -100 * g.SEC, "t0": 0,
            "bats": bats, "actions": ded}


def pool_actor_model_cases(case: dict) -> list[dict]:
    """One driver-mode "actor" case per battery (its messages, the set-power results as seen by it)."""
    out = []
    for b in case["bats"]:
        acts = []
        for a in case["actions"]:
            mine = []
            for ev, eb in g.action_events(a):
                if ev["k"] == "sp":
                    mine.append({"k": "sp", "succ": b in ev["succ"], "fail": b in ev["fail"]})
                elif eb == b:
                    mine.append({k: v for k, v in ev.items() if k != "bat"})
            # the events of a burst reach the tracker in order, at the same instant
            acts += [{"t": a["t"], "ev": ev} for ev in mine] or [{"t": a["t"], "ev": None}]
        out.append({"mode": "actor", "maxAge": case["maxAge"], "maxBlk": case["maxBlk"], "ts0": case["ts0"],
                    "t0": case["t0"], "actions": acts})
    return out


def check_pool_actor(ctx: Ctx, cases: list[dict]) -> None:
    all_impl = [guarded(ctx, c, g.run_pool_actor, c) for c in cases]
    for c, o in zip(cases, all_impl):
        if "error" in o:
            ctx.mismatch(c, o, None, "pool tracker with real battery trackers: the real code raised")
    cases = [c for c, o in zip(cases, all_impl) if "error" not in o]
    impl = [o for o in all_impl if "error" not in o]
    for c, o in zip(cases, impl):
        for a, ob in zip(c["actions"], o["obs"]):
            req = set(a.get("req", c["bats"]))
            w = set(ob["w"]) & req
            expect = sorted(w) if w else sorted(set(ob["u"]) & req)
            if ob["get"] != expect:
                ctx.violation("pool: uncertain components returned although a working one is requested"
                              if w else "pool: get_working_components", c, {"t": a["t"], "observed": ob, "expected": expect})
            if set(ob["w"]) & set(ob["u"]):
                ctx.violation("pool: a component is both working and uncertain", c, {"t": a["t"], "observed": ob})
        for clause, observed, regime in g.pool_burst_oracle(c, o["obs"]):
            ctx.violation(clause, c, observed, regime)
        ctx.case(c, tags=["pool-actor"] + (["pool-actor:uncertain"] if any(ob["u"] for ob in o["obs"]) else [])
                 + (["pool-actor:burst"] if any(a.get("evs") for a in c["actions"]) else []),
                 nontrivial=any(ob["w"] for ob in o["obs"]))
    # model: per-battery trackers with simulated timers, their notifications folded into the pool
    stage1_cases, owner = [], []
    for ci, c in enumerate(cases):
        for b, mc in zip(c["bats"], pool_actor_model_cases(c)):
            stage1_cases.append(mc)
            owner.append((ci, b))
    s1 = model(ctx, stage1_cases)
    if s1 is None:
        return
    notes_of: dict[int, list] = {}
    racy: set[int] = set()
    for (ci, b), mo in zip(owner, s1):
        notes_of.setdefault(ci, []).extend([t, b, st] for t, st in mo["notes"])
        if has_race(mo["log"]):
            racy.add(ci)
    for ci, c in enumerate(cases):  # a data message and a result in the same step: delivery order is the scheduler's
        if any(a.get("evs") and any(e["k"] != "sp" for e in a["evs"]) for a in c["actions"]):
            racy.add(ci)
    stage2 = []
    for ci, c in enumerate(cases):
        notes = sorted(notes_of.get(ci, []), key=lambda n: (n[0], n[1]))
        ops, k = [], 0
        for a in c["actions"]:
            while k < len(notes) and notes[k][0] <= a["t"]:
                ops.append({"id": notes[k][1], "st": notes[k][2]})
                k += 1
            ops.append({"cur": True})
            ops.append({"get": sorted(a.get("req", c["bats"]))})
        stage2.append({"mode": "pool", "ops": ops})
    s2 = model(ctx, stage2)
    if s2 is None:
        return
    for ci, (c, o, p2, m2) in enumerate(zip(cases, impl, stage2, s2)):
        if ci in racy:
            ctx.tags["pool-actor:race-skipped"] = ctx.tags.get("pool-actor:race-skipped", 0) + 1
            continue
        mobs, cur = [], None
        for op, r in zip(p2["ops"], m2["out"]):
            if "cur" in op:
                cur = r
            elif "get" in op:
                mobs.append({"w": cur["w"], "u": cur["u"], "get": r})
        ctx.traces_validated += 1
        if canon(mobs) != canon(o["obs"]):
            ctx.mismatch(c, o["obs"], mobs, "pool tracker with real battery trackers vs model")


# --------------------------------------------------------------------------- exhaustive (thorough)
def exh_case(max_age: int, max_blk: int, prefix: list[int], depth: int, alt: bool = False) -> dict:
    return {"mode": "exh", "maxAge": max_age, "maxBlk": max_blk, "ts0": -100 * g.SEC, "t0": 0,
            "alphabet": g.exh_alphabet(max_age, alt), "prefix": prefix, "depth": depth}


def exh_oracle(ctx: Ctx, case: dict, out: str, budget: list[int]) -> int:
    """Walk the same tree as the driver/impl and evaluate the event oracle on every path."""
    letters, depth = case["alphabet"], case["depth"]
    orc0 = g.EventOracle(case["maxAge"], case["maxBlk"])
    now = case["t0"]
    path: list[dict] = []
    # the prefix itself was already judged by the shallower walk; rebuild its oracle state from the REAL outputs
    pre = {"mode": "sync", "maxAge": case["maxAge"], "maxBlk": case["maxBlk"], "ts0": case["ts0"], "t0": case["t0"],
           "events": []}
    for i in case["prefix"]:
        now += letters[i]["dt"]
        ev = {k: v for k, v in letters[i].items() if k not in ("dt", "delay")}
        ev["now"] = now
        if ev["k"] in ("bat", "inv"):
            ev["ts"] = now - letters[i].get("delay", 0)
        pre["events"].append(ev)
    if pre["events"]:
        po = g.run_sync(pre)
        for i, (ev, o) in enumerate(zip(pre["events"], po["out"])):
            orc0.feed(i, ev, o)
        orc0.violations.clear()
        path = list(pre["events"])
    pos = [0]
    decode = {"-": None, "N": g.NW, "U": g.UN, "W": g.WK}
    count = [0]

    def rec(orc: g.EventOracle, t: int, d: int, path: list[dict]) -> None:
        if d >= depth:
            return
        for l in letters:
            t2 = t + l["dt"]
            ev = {k: v for k, v in l.items() if k not in ("dt", "delay")}
            ev["now"] = t2
            if ev["k"] in ("bat", "inv"):
                ev["ts"] = t2 - l.get("delay", 0)
            ch = out[pos[0]]
            pos[0] += 1
            count[0] += 1
            o2 = copy.copy(orc)
            o2.latest = dict(orc.latest)
            o2.violations = []
            o2.tags = orc.tags
            if ch == "!":
                o2.violations.append(("on-change: several notifications in one iteration", {}, None))
                o = None
            else:
                o = decode[ch]
            o2.feed(len(path), ev, o)
            for clause, obs, regime in o2.violations:
                if budget[0] > 0 or regime is None:
                    budget[0] -= 1
                    ctx.violation(clause, dict(pre, events=path + [ev]), obs, regime)
            rec(o2, t2, d + 1, path + [ev])

    rec(orc0, now, len(case["prefix"]), path)
    return count[0]


def run_exhaustive(ctx: Ctx, max_age: int, max_blk: int, depth: int, deadline: float, alt: bool = False) -> None:
    cases = [exh_case(max_age, max_blk, [], min(2, depth), alt)]
    if depth > 2:
        cases += [exh_case(max_age, max_blk, [i, j], depth, alt) for i in range(9) for j in range(9)]
    impl: list[dict] = []
    budget = [20]
    nodes = 0
    for c in cases:
        if time.time() > deadline:
            ctx.note(f"exhaustive walk (maxAge={max_age}) stopped at the time budget after {len(impl)} of {len(cases)} subtrees")
            break
        o = g.run_exh(c)
        impl.append(o)
        nodes += exh_oracle(ctx, c, o["out"], budget)
    cases = cases[: len(impl)]
    mod = model(ctx, cases)
    diff(ctx, cases, impl, mod, "exhaustive walk: status sent at every node")
    ctx.evaluations += nodes
    ctx.traces_validated += nodes
    ctx.tags["exh:histories"] = ctx.tags.get("exh:histories", 0) + nodes
    ctx.note(f"bounded-exhaustive: all histories of length <= {depth} over a 9-letter alphabet "
             f"({'alternative letters, ' if alt else ''}maxAge={max_age}, maxBlk={max_blk}): {nodes} histories, real _run vs model")


# --------------------------------------------------------------------------- entry points
def load_corpus() -> list[dict]:
    return [json.loads(p.read_text()) for p in sorted(CORPUS.glob("*.json"))] if CORPUS.exists() else []


def run_cases(ctx: Ctx, sync_cases: list[dict], actor_cases: list[dict], fold_cases: list[dict],
              pool_cases: list[dict]) -> None:
    shrink_budget = [3]
    # sync
    impl = [guarded(ctx, c, check_sync, ctx, c, shrink_budget) for c in sync_cases]
    diff(ctx, sync_cases, impl, model(ctx, sync_cases), "sync seam: real _run loop body vs step")
    # actor
    pred_cases, pred_impl, replays = [], [], []
    for c in actor_cases:
        res = guarded(ctx, c, check_actor, ctx, c)
        if isinstance(res, dict):
            pred_cases.append(c)
            pred_impl.append(res)
            continue
        im, rp, race = res
        replays.append(rp)
        if not race:
            pred_cases.append(c)
            pred_impl.append(im)
    pm = model(ctx, pred_cases)
    if pm is not None:
        pm = [{"notes": m["notes"], "log": _stable_instant_sort(m["log"]), "final": m["final"]} for m in pm]
    diff(ctx, pred_cases, pred_impl, pm, "actor seam: real timers/select vs model with simulated timers")
    rm = model(ctx, [r["case"] for r in replays])
    if rm is not None:
        for r, m in zip(replays, rm):
            ctx.traces_validated += 1
            notes = [[e["now"], s] for e, s in zip(r["case"]["events"], m["out"]) if s is not None]
            if notes != r["notes"] or m["final"]["last"] != r["last"]:
                ctx.mismatch(r["case"], {"notes": r["notes"], "last": r["last"]},
                             {"notes": notes, "last": m["final"]["last"]}, "actor seam: observed dispatch order replayed")
    # pool
    fimpl = []
    for c in fold_cases:
        o = guarded(ctx, c, g.run_pool_fold, c)
        if "error" not in o:
            pool_fold_oracle(ctx, c, o)
            ctx.case(c, tags=["pool-fold"], nontrivial=any("get" in op for op in c["ops"]))
        fimpl.append(o)
    diff(ctx, fold_cases, fimpl, model(ctx, fold_cases), "pool tracker fed with status sequences vs model")
    if pool_cases:
        check_pool_actor(ctx, pool_cases)


def run(ctx: Ctx) -> None:
    python_flags()
    g._Repo.load()  # pylint: disable=protected-access
    ctx.rule = RULE
    t_start = time.time()
    sync_cases, actor_cases, fold_cases, pool_cases = [], [], [], []
    for c in load_corpus():
        {"sync": sync_cases, "actor": actor_cases, "pool": fold_cases, "poolactor": pool_cases}[c["mode"]].append(c)
    n_sync = ctx.budget(5000, 60000)
    n_actor = ctx.budget(500, 5000)
    n_fold = ctx.budget(150, 1000)
    n_pool = ctx.budget(80, 800)
    for i in range(n_sync):
        rng = ctx.subrng("sync", i)
        sync_cases.append(g.gen_sync_case(rng, rng.randint(4, 25)))
    for i in range(n_actor):
        rng = ctx.subrng("actor", i)
        actor_cases.append(g.gen_actor_case(rng, rng.randint(4, 20), races=(i % 5 == 0)))
    for i in range(ctx.budget(6, 40)):
        sync_cases.append(g.gen_long_failures_sync(ctx.subrng("sync-long", i)))
    for i in range(ctx.budget(2, 10)):
        actor_cases.append(g.gen_long_failures_actor(ctx.subrng("actor-long", i)))
    for i in range(n_fold):
        fold_cases.append(gen_pool_fold(ctx.subrng("fold", i)))
    for i in range(n_pool):
        pool_cases.append(gen_pool_actor(ctx.subrng("pool", i)))
    run_cases(ctx, sync_cases, actor_cases, fold_cases, pool_cases)
    if ctx.tier == "thorough":
        deadline = t_start + 540
        run_exhaustive(ctx, 3 * g.SEC // 2, 4 * g.SEC, 6, deadline)
        run_exhaustive(ctx, g.SEC, 2 * g.SEC, 6, deadline, alt=True)
    else:
        run_exhaustive(ctx, 3 * g.SEC // 2, 4 * g.SEC, 4, t_start + 55)


def replay(ctx: Ctx, data: dict) -> None:
    python_flags()
    g._Repo.load()  # pylint: disable=protected-access
    ctx.rule = RULE
    case = data.get("case")
    if not isinstance(case, dict) or "mode" not in case:
        return run(ctx)
    buckets: dict[str, list] = {"sync": [], "actor": [], "pool": [], "poolactor": []}
    if case["mode"] not in buckets:
        return run(ctx)
    buckets[case["mode"]].append(case)
    run_cases(ctx, buckets["sync"], buckets["actor"], buckets["pool"], buckets["poolactor"])
