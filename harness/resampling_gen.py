"""Runners and generators for the resampler (C07 timeline, C08 relevant-sample window).

Two ways of driving the REAL code of `frequenz.sdk.timeseries._resampling`:

* `run_loop_case(case)`   — the public path: a `Resampler` with a recording `resampling_function` supplied through
  `ResamplerConfig`, `resample()` running as a task on an `async_solipsism` event loop (virtual clock, integer µs),
  wall clock moved in lock-step with `time_machine`.  A case is a list of timed actions (add/remove a series, change a
  sink's latency, block the loop = late timer, feed a sample).  Everything observable is logged in ONE ordered log:
  sample handed to the receiving task, resampling function called, sample handed to a sink.
* `run_helper_case(case)` — `_ResamplingHelper` driven synchronously (`add_sample`, `resample(T)`).

All times are integer microseconds.  `wall = wall0 + loop_time`; the resampler is created at loop time `loop0`.
Sample values encode identity: the `j`-th sample fed to series `s` has value `s * SERIES_STRIDE + j`.
"""
from __future__ import annotations

import asyncio
import math
import random
from datetime import datetime, timedelta, timezone
from fractions import Fraction
from typing import Any

EPOCH = datetime(1970, 1, 1, tzinfo=timezone.utc)
SERIES_STRIDE = 100000


def dt(us: int) -> datetime:
    return EPOCH + timedelta(microseconds=us)


def us_of(d: datetime) -> int:
    delta = d - EPOCH
    return (delta.days * 86400 + delta.seconds) * 1000000 + delta.microseconds


def tz_of(name: str | None):  # type: ignore[no-untyped-def]
    """`None`/"UTC" -> timezone.utc; "+05:30"/"-03:00" -> fixed offset; otherwise a `ZoneInfo` key."""
    if name is None or name == "UTC":
        return timezone.utc
    if name[0] in "+-":
        hh, mm = name[1:].split(":")
        off = timedelta(hours=int(hh), minutes=int(mm))
        return timezone(off if name[0] == "+" else -off)
    from zoneinfo import ZoneInfo

    return ZoneInfo(name)


VALUE_KINDS = {"ok": None, "nan": float("nan"), "inf": float("inf"), "-inf": float("-inf")}


def value_flags(v: str) -> dict:
    """How a fed value is described to the model / the oracle: only None and NaN are invalid, ±inf is a value."""
    return {"none": v == "none", "nan": v == "nan", "inf": v in ("inf", "-inf")}


def td_us(td: timedelta | None) -> int | None:
    if td is None:
        return None
    return (td.days * 86400 + td.seconds) * 1000000 + td.microseconds


def frac_str(fr: Fraction) -> str:
    return str(fr.numerator) if fr.denominator == 1 else f"{fr.numerator}/{fr.denominator}"


def max_age_fraction(case: dict) -> Fraction:
    """The exact rational value of the float `max_data_age_in_periods` of a case (given as "n/d")."""
    return Fraction(case["max_age"])


def max_age_float(case: dict) -> float:
    fr = max_age_fraction(case)
    f = fr.numerator / fr.denominator
    assert Fraction(f) == fr, f"max_age {fr} is not a float"
    return f


# ----------------------------------------------------------------------------------------------- public path
class _Src:
    """An async-iterator source fed by the harness; logs the instant a sample is handed to the receiving task."""

    def __init__(self, sid: int, log: list) -> None:
        self.sid = sid
        self.q: asyncio.Queue = asyncio.Queue()
        self.log = log

    def __aiter__(self) -> "_Src":
        return self

    async def __anext__(self):  # type: ignore[no-untyped-def]
        item = await self.q.get()
        if item is None:
            raise StopAsyncIteration
        j, sample, kind = item
        self.log.append(("recv", self.sid, j, us_of(sample.timestamp), kind))
        return sample


def run_loop_case(case: dict) -> dict:
    """Run one timed case on the real `Resampler`.  Returns the raw ordered log and bookkeeping."""
    import async_solipsism

    loop = async_solipsism.EventLoop()
    asyncio.set_event_loop(loop)
    try:
        return loop.run_until_complete(_run_loop_case(case, loop))
    finally:
        try:
            loop.close()
        finally:
            asyncio.set_event_loop(None)


async def _run_loop_case(case: dict, loop: Any) -> dict:
    import time_machine
    from frequenz.quantities import Quantity

    from frequenz.sdk.timeseries import Sample
    from frequenz.sdk.timeseries._resampling import Resampler, ResamplerConfig, ResamplingError

    clock = loop._selector.clock  # pylint: disable=protected-access

    def now_us() -> int:
        return clock._ticks  # integer microseconds  # pylint: disable=protected-access

    wall0, loop0 = case["wall0"], case["loop0"]
    period = case["period"]
    log: list = []
    calls: list = []  # resampling function calls: index -> (T unknown here) list of values
    lat: dict[int, int] = {}
    srcs: dict[int, _Src] = {}
    counters: dict[int, int] = {}
    errors: list[str] = []
    ident: dict[int, tuple[int, int]] = {}  # id(Sample object fed) -> (series, index); the objects are kept alive
    fed: list = []
    failing_sinks: set[int] = set()
    restarts: list = []

    def resampling_function(samples, config, props):  # type: ignore[no-untyped-def]
        vals = [(us_of(s.timestamp), ident.get(id(s))) for s in samples]
        calls.append(vals)
        log.append(("call", len(calls) - 1))
        return float(len(calls) - 1)

    with time_machine.travel(dt(wall0), tick=False) as traveller:

        async def sleep_until(t: int) -> None:
            while t - now_us() > 0:
                # async_solipsism refuses to jump 24 h or more at once (it takes that for "sleeping forever")
                await asyncio.sleep(min(t - now_us(), 12 * 3600 * 10**6) / 1e6)
            traveller.move_to(dt(wall0 + now_us()))

        await sleep_until(loop0)
        if now_us() != loop0:
            errors.append(f"clock {now_us()} != loop0 {loop0}")
        kwargs: dict = {}
        if "align" in case:
            kwargs["align_to"] = None if case["align"] is None else dt(case["align"]).astimezone(tz_of(case.get("align_tz")))
        if "max_age" in case:
            kwargs["max_data_age_in_periods"] = max_age_float(case)
        if "init_len" in case:
            kwargs["initial_buffer_len"] = case["init_len"]
        if "max_len" in case:
            kwargs["max_buffer_len"] = case["max_len"]
            kwargs["warn_buffer_len"] = min(case.get("warn_len", 128), case["max_len"] - 1)
        config = ResamplerConfig(resampling_period=timedelta(microseconds=period),
                                 resampling_function=resampling_function, **kwargs)
        resampler = Resampler(config)
        first_due = resampler._timer._next_tick_time  # pylint: disable=protected-access
        w0 = us_of(resampler._window_end)  # pylint: disable=protected-access

        async def supervise() -> None:
            """Run `resample()` the way `ComponentMetricsResamplingActor._run` does: after a `ResamplingError`
            remove the sources named in it and call `resample()` again; anything else ends the task."""
            while True:
                try:
                    await resampler.resample()
                except ResamplingError as err:
                    gone = []
                    for source in err.exceptions:
                        resampler.remove_timeseries(source)
                        gone.append(getattr(source, "sid", None))
                    restarts.append((now_us(), gone))
                    log.append(("restart", now_us(), gone))
                else:
                    return

        task = asyncio.get_running_loop().create_task(supervise())

        def make_sink(sid: int, src: _Src):  # type: ignore[no-untyped-def]
            async def sink(sample: Sample) -> None:  # type: ignore[type-arg]
                if sid in failing_sinks:
                    raise RuntimeError(f"sink of series {sid} failed")
                try:
                    props = resampler.get_source_properties(src)
                    ip, rec = td_us(props.sampling_period), props.received_samples
                    helper = resampler._resamplers[src]._helper  # pylint: disable=protected-access
                    maxlen = helper._buffer.maxlen  # pylint: disable=protected-access
                except KeyError:  # series removed while its tick was in flight
                    ip, rec, maxlen = None, None, None
                log.append(("emit", sid, us_of(sample.timestamp),
                            None if sample.value is None else sample.value.base_value, now_us(), ip, maxlen))
                d = lat.get(sid, 0)
                if d > 0:
                    await asyncio.sleep(d / 1e6)

            return sink

        last_t = loop0
        for a in case["actions"]:
            t = a["t"]
            await sleep_until(t)
            op = a["op"]
            if now_us() != t and op != "send":  # (samples fed while the loop is blocked are simply delivered late)
                errors.append(f"action {a} ran at {now_us()}")
            if op == "add":
                sid = a["s"]
                if sid not in srcs:
                    srcs[sid] = _Src(sid, log)
                lat[sid] = a.get("d", lat.get(sid, 0))
                ok = resampler.add_timeseries(f"s{sid}", srcs[sid], make_sink(sid, srcs[sid]))
                log.append(("add", sid, now_us(), ok))
            elif op == "remove":
                sid = a["s"]
                ok = sid in srcs and resampler.remove_timeseries(srcs[sid])
                if ok:
                    del srcs[sid]  # a later `add` of this series id comes with a new source object
                log.append(("remove", sid, now_us(), ok))
            elif op == "lat":
                lat[a["s"]] = a["d"]
            elif op == "hog":  # the loop is blocked for d µs (everything due meanwhile runs late)
                clock.advance(a["d"] / 1e6)
                traveller.move_to(dt(wall0 + now_us()))
            elif op == "fail":  # from now on the series raises at every tick: its source stops / its sink raises
                sid = a["s"]
                if a.get("how", "sink") == "source" and sid in srcs:
                    srcs[sid].q.put_nowait(None)
                else:
                    failing_sinks.add(sid)
                log.append(("fail", sid, now_us()))
            elif op == "send":
                sid = a["s"]
                j = counters.get(sid, 0)
                counters[sid] = j + 1
                v = a.get("v", "ok")
                if v == "ok":
                    q: Any = Quantity(float(sid * SERIES_STRIDE + j))
                elif v == "none":
                    q = None
                else:
                    q = Quantity(VALUE_KINDS[v])
                if sid in srcs:
                    sample = Sample(dt(a["ts"]), q)
                    ident[id(sample)] = (sid, j)
                    fed.append(sample)
                    srcs[sid].q.put_nowait((j, sample, v))
            else:
                raise ValueError(op)
            last_t = t
        await sleep_until(case["end"])
        dead = None
        if task.done():
            exc = task.exception() if not task.cancelled() else None
            dead = type(exc).__name__ if exc is not None else "ended"
        me = asyncio.current_task()
        others = [t for t in asyncio.all_tasks() if t is not me]
        for t in others:
            t.cancel()
        await asyncio.gather(*others, return_exceptions=True)
    return {"log": log, "calls": calls, "dead": dead, "w0": w0, "first_due": first_due, "errors": errors,
            "restarts": len(restarts),
            "end_clock": now_us(), "last_action": last_t}


def loop_ticks(res: dict) -> list:
    """Group the sink calls of a run into ticks: [[fire_time, timestamp, [series in call order]], …]."""
    ticks: list = []
    for e in res["log"]:
        if e[0] != "emit":
            continue
        _, sid, ts, _v, at, _ip, _ml = e
        if ticks and ticks[-1][1] == ts and ticks[-1][0] == at and sid not in ticks[-1][2]:
            ticks[-1][2].append(sid)
        else:
            ticks.append([at, ts, [sid]])
    return ticks


def c07_impl_out(res: dict) -> dict:
    return {"w0": res["w0"], "first_due": res["first_due"], "ticks": loop_ticks(res), "dead": res["dead"] is not None,
            "restarts": res["restarts"]}


# ----------------------------------------------------------------------------------------------- C07 oracle
def c07_oracle(case: dict, res: dict) -> list[tuple[str, Any]]:
    """The statement of C07 evaluated on what the sinks of the REAL resampler received.  Returns failed clauses.

    Independent of the Lean model: uses only the case (period, align_to, creation instant, add/remove instants) and
    the ordered log of sink calls.
    """
    p, wall0 = case["period"], case["wall0"]
    now = wall0 + case["loop0"]  # wall clock at creation
    origin = now if case.get("align", 0) is None else case.get("align", 0)
    fails: list[tuple[str, Any]] = []
    # registrations: (sid, n) -> {"add": loop time, "removed": loop time|None, "ts": [...]}
    regs: list[dict] = []
    cur: dict[int, dict] = {}
    last_ts = None
    for e in res["log"]:
        if e[0] == "add" and e[3]:
            cur[e[1]] = {"sid": e[1], "add": e[2], "removed": None, "ts": []}
            regs.append(cur[e[1]])
        elif e[0] == "remove" and e[3]:
            if e[1] in cur:
                cur[e[1]]["removed"] = e[2]
                # a tick in flight may still deliver to the removed series; keep the record for that
                cur[e[1]] = {**cur[e[1]], "ghost": True}
        elif e[0] == "fail":
            if e[1] in cur and cur[e[1]]["removed"] is None:
                cur[e[1]]["removed"] = e[2]  # a failing series is dropped by the recovery; nothing is owed to it
        elif e[0] == "emit":
            _, sid, ts, _v, at, _ip, _ml = e
            if (ts - origin) % p != 0:
                fails.append(("aligned", {"series": sid, "timestamp": ts, "origin": origin, "period": p}))
            if last_ts is not None and ts < last_ts:
                fails.append(("reordered", {"series": sid, "timestamp": ts, "previous": last_ts}))
            last_ts = ts
            r = cur.get(sid)
            if r is None:
                fails.append(("unknown-series", {"series": sid}))
                continue
            r["ts"].append(ts)
    # (the copies made on removal share the "ts" list with the registration they came from)
    for r in regs:
        ts = r["ts"]
        for a, b in zip(ts, ts[1:]):
            if b != a + p:
                kind = "duplicated" if b == a else ("skipped" if b > a else "reordered")
                fails.append((kind, {"series": r["sid"], "prev": a, "next": b, "period": p}))
                break
    # The timeline starts at some grid point w0 in [creation, creation + 2·period]; from then on no tick may be
    # missing: a series still registered at the end of the (quiescent) run has every grid point g >= w0 that lies
    # after its registration and before the end of the run, and nobody ever sees a timestamp below w0.
    wall_end = wall0 + case["end"]
    k = -((-(now - origin)) // p)  # ceil
    candidates = []
    while origin + k * p <= now + 2 * p:
        candidates.append(origin + k * p)
        k += 1
    best: list[tuple[str, Any]] | None = None
    for w0 in candidates:
        f: list[tuple[str, Any]] = []
        for r in regs:
            ts = r["ts"]
            if ts and min(ts) < w0:
                f.append(("first-window", {"created": now, "timestamp": min(ts), "period": p}))
            if r["removed"] is None:
                wall_add = wall0 + r["add"]
                g0 = max(w0, origin + ((wall_add - origin) // p + 1) * p)
                expect = list(range(g0, wall_end, p)) if wall_end > g0 else []
                have = set(ts)
                missing = [g for g in expect if g not in have]
                if missing:
                    f.append(("skipped", {"series": r["sid"], "added_at_wall": wall_add, "missing": missing[:5],
                                          "n_missing": len(missing), "received": ts[:3] + (["…"] if len(ts) > 3 else []),
                                          "loop_task_ended_with": res["dead"]}))
        if best is None or len(f) < len(best):
            best = f
    if not candidates:
        best = [("first-window", {"created": now, "note": "no grid point in [creation, creation + 2 period]"})]
    fails.extend(best or [])
    return fails


# ----------------------------------------------------------------------------------------------- C07 generator
PERIODS = [1000, 2000, 10_000, 100_000, 250_000, 1_000_000, 1_500_000, 2_000_000, 15_000_000, 60_000_000,
           900_000_000, 3_600_000_000, 10_800_000_000,
           # periods that do not divide one hour (a grid computed on a DST wall clock drifts off)
           700_000, 7_000_000, 13_000_000, 420_000_000, 2_700_000_000 + 60_000_000]
UNIT = 10  # period, latencies are multiples of UNIT µs; actions are placed off the residue class of the ticks


DST_ZONES = ["Europe/Berlin", "America/New_York", "Australia/Lord_Howe", "America/Santiago"]
FIXED_ZONES = ["+05:30", "-03:00", "+14:00", "UTC", "Asia/Tokyo"]
_switch_cache: dict[str, list[int]] = {}


def dst_switches(zone: str) -> list[int]:
    """The instants (µs, UTC) of 2024 at which the UTC offset of `zone` changes."""
    if zone not in _switch_cache:
        tz = tz_of(zone)
        out = []
        t = datetime(2024, 1, 1, tzinfo=timezone.utc)
        end = datetime(2025, 1, 1, tzinfo=timezone.utc)
        step = timedelta(hours=6)
        off = t.astimezone(tz).utcoffset()
        while t < end:
            n = t + step
            if n.astimezone(tz).utcoffset() != off:
                lo, hi = t, n  # bisect to the minute
                while hi - lo > timedelta(minutes=1):
                    mid = lo + (hi - lo) / 2
                    mid = mid.replace(second=0, microsecond=0)
                    if mid <= lo:
                        break
                    if mid.astimezone(tz).utcoffset() == off:
                        lo = mid
                    else:
                        hi = mid
                out.append(us_of(hi))
                off = n.astimezone(tz).utcoffset()
            t = n
        _switch_cache[zone] = out
    return _switch_cache[zone]


def gen_creation(rng: random.Random, p: int) -> tuple[int | None, int, str, str, str | None]:
    """(align instant, wall clock at creation, align kind, phase kind, time zone `align_to` is expressed in)."""
    kind = rng.choice(["epoch", "epoch", "past", "future", "none", "far-future", "tz", "tz"])
    phase_kind = rng.choice(["aligned", "+1us", "-1us", "half", "random", "random", "lt-1ms"])
    phase = {"aligned": 0, "+1us": 1, "-1us": p - 1, "half": p // 2, "random": rng.randrange(p),
             "lt-1ms": rng.randrange(1, min(p, 1000))}[phase_kind]
    base = 1_700_000_000_000_000 + rng.randrange(10**9) if rng.random() < 0.8 else rng.randrange(10**7)
    if kind == "none":
        return None, base + rng.randrange(p), kind, "n/a", None
    if kind == "tz":
        # `align_to` given as a local time; the grid is a grid of INSTANTS whatever the zone does
        if rng.random() < 0.7:
            zone = rng.choice(DST_ZONES)
            sw = dst_switches(zone)
            if rng.random() < 0.5 and sw:
                # the run crosses a DST switch: created a few periods before it
                s_at = rng.choice(sw)
                align = s_at - rng.randrange(1, 40) * 86_400_000_000 - rng.randrange(3_600_000_000)
                now = s_at - rng.randint(1, 4) * p - rng.randrange(p)
                now = align + ((now - align) // p) * p + phase
                return align, now, "tz-dst-crossing", phase_kind, zone
            # `align_to` and the creation lie in different DST phases
            jan = us_of(datetime(2024, 1, 15, tzinfo=timezone.utc)) + rng.randrange(86_400_000_000)
            jul = us_of(datetime(2024, 7, 10, tzinfo=timezone.utc)) + rng.randrange(86_400_000_000)
            align, near = (jan, jul) if rng.random() < 0.5 else (jul, jan)
            if rng.random() < 0.5:
                align = (align // 1_000_000) * 1_000_000
            now = align + ((near - align) // p) * p + phase
            return align, now, "tz-other-dst-phase", phase_kind, zone
        zone = rng.choice(FIXED_ZONES)
        align = us_of(datetime(2024, 3, 1, tzinfo=timezone.utc)) + rng.randrange(10**9)
        # (stay within a few weeks: time_machine keeps the wall clock as float seconds, exact to 1 µs only up to ~2040)
        now = align + rng.randrange(max(1, min(10**5, 60 * 86_400_000_000 // p))) * p + phase
        return align, now, "tz-fixed-offset", phase_kind, zone
    if kind == "epoch":
        align = 0
        now = (base // p) * p + phase
    elif kind == "past":
        align = base - rng.randrange(1, 10**9)
        now = align + ((base - align) // p) * p + phase
    elif kind == "future":  # the grid origin lies a few periods ahead of the creation
        k = rng.randint(1, 6)
        now = base
        align = now - phase + k * p
    else:
        k = rng.randint(10**3, 10**6)
        now = base
        align = now - phase + k * p
    return align, now, kind, phase_kind, None


def gen_loop_case(rng: random.Random, with_samples: bool = False, allow_remove: bool = True,
                  max_ticks: int = 20) -> tuple[dict, list[str]]:
    p = rng.choice(PERIODS)
    align, now, akind, pkind, zone = gen_creation(rng, p)
    loop0 = rng.choice([0, 0, rng.randrange(1, 10**7)])
    wall0 = now - loop0
    tags = [f"align-{akind}", f"phase-{pkind}", f"period-{'sub-s' if p < 10**6 else ('s' if p < 6 * 10**7 else 'min-h')}"]
    # where the ticks are due on the loop clock (independent arithmetic: first grid point >= now + p)
    origin = now if align is None else align
    k0 = -((-(now + p - origin)) // p)  # ceil
    first_due = origin + k0 * p - wall0
    r0 = first_due % UNIT
    n_ticks = rng.randint(6, max_ticks)
    calm = 5
    horizon = first_due + (n_ticks - calm) * p  # disturbances happen before this loop time

    def off_tick(t: int) -> int:
        """Move `t` to the residue class r0 + 5 (never the instant of a tick, a gather end or a hog end)."""
        return t - ((t - r0) % UNIT) + 5 if p >= UNIT else t

    actions: list[dict] = []
    n_series = rng.randint(1, 4)
    lat_choices = [0, 0, 0, p // 10 // UNIT * UNIT, p // 2 // UNIT * UNIT, p - UNIT, p, p + UNIT, 2 * p + p // 2 // UNIT * UNIT, 3 * p]
    present: set[int] = set()
    some_at_creation = rng.random() < 0.85  # otherwise the first ticks run without any series
    for s in range(n_series):
        if some_at_creation and (s == 0 or rng.random() < 0.5):
            actions.append({"t": loop0, "op": "add", "s": s, "d": rng.choice(lat_choices[:5])})
            present.add(s)
    if not present:
        tags.append("no-series-at-creation")
    span = max(horizon - loop0, p)
    n_act = rng.randint(1, 8)
    times = sorted(off_tick(loop0 + rng.randrange(1, span)) for _ in range(n_act))
    # boundary instants: just before / just after a tick is due
    for _ in range(rng.randint(0, 2)):
        k = rng.randint(0, max(0, n_ticks - calm - 1))
        times.append(off_tick(first_due + k * p + rng.choice([-UNIT, UNIT, 2 * UNIT])))
    times = sorted(set(t for t in times if loop0 < t < horizon))
    busy_until = loop0
    failed: set[int] = set()
    n_failed = 0
    for t in times:
        if t <= busy_until:
            continue
        r = rng.random()
        absent = [s for s in range(n_series) if s not in present and s not in failed]
        if r < 0.3 and absent:
            s = rng.choice(absent)
            actions.append({"t": t, "op": "add", "s": s, "d": rng.choice(lat_choices[:6])})
            present.add(s)
            tags.append("add-mid-run")
        elif r < 0.4 and allow_remove and present and (len(present) > 1 or rng.random() < 0.3):
            s = rng.choice(sorted(present))
            actions.append({"t": t, "op": "remove", "s": s})
            present.discard(s)
            tags.append("remove-mid-run")
        elif r < 0.47 and allow_remove and len(present) > 1 and n_failed < 2:
            # a source stops / a sink starts raising: the next tick ends with a ResamplingError and the recovery of
            # the resampling actor (remove the failed series, call resample() again) runs
            s = rng.choice(sorted(present))
            actions.append({"t": t, "op": "fail", "s": s, "how": rng.choice(["sink", "source"])})
            present.discard(s)
            failed.add(s)
            n_failed += 1
            tags.append("series-fails+restart")
        elif r < 0.50 and present:
            s = rng.choice(sorted(present))  # already registered: add_timeseries refuses
            actions.append({"t": t, "op": "add", "s": s, "d": rng.choice(lat_choices[:6])})
            tags.append("add-duplicate")
        elif r < 0.75 and present:
            s = rng.choice(sorted(present))
            d = rng.choice(lat_choices)
            actions.append({"t": t, "op": "lat", "s": s, "d": d})
            tags.append("sink-" + ("fast" if d == 0 else "lt-p" if d < p else "eq-p" if d == p else "gt-p"))
        else:
            want = rng.choice([p // 3, p - UNIT, p, p + UNIT, 2 * p, 3 * p + p // 2])
            d = want - ((t + want - r0) % UNIT)
            if d <= 0:
                d += UNIT
            actions.append({"t": t, "op": "hog", "d": d})
            busy_until = t + d
            tags.append("timer-late-" + ("lt-p" if d < p else "eq-p" if abs(d - p) <= UNIT else "gt-p"))
    # calm tail: all sinks fast again
    t_calm = off_tick(max(horizon, busy_until + UNIT))
    for s in sorted(present):
        actions.append({"t": t_calm, "op": "lat", "s": s, "d": 0})
        t_calm += UNIT
    end = off_tick(max(first_due + n_ticks * p, t_calm + 4 * p) + p // 2)
    case = {"kind": "loop", "period": p, "align": align, "wall0": wall0, "loop0": loop0, "now": now,
            "actions": actions, "end": end}
    if zone is not None:
        case["align_tz"] = zone
    if with_samples:
        add_samples(rng, case, first_due, tags)
    return case, tags


def c07_nontrivial(case: dict) -> bool:
    ops = [a["op"] for a in case["actions"]]
    late = any(a["op"] == "hog" or (a["op"] in ("lat", "add") and a.get("d", 0) > 0) for a in case["actions"])
    return (late or "remove" in ops or "fail" in ops
            or any(a["op"] == "add" and a["t"] != case["loop0"] for a in case["actions"]))


def lean_loop_case(case: dict) -> dict:
    """What the Lean driver gets: the case without the samples' payload."""
    return {"kind": "loop", "period": case["period"], "align": case["align"], "now": case["wall0"] + case["loop0"],
            "loop0": case["loop0"], "end": case["end"],
            "actions": [{k: v for k, v in a.items() if k != "how"} for a in case["actions"] if a["op"] != "send"]}


# ----------------------------------------------------------------------------------------------- samples (C08)
MAX_AGES = ["1", "1", "3/2", "2", "2", "3", "3", "5/2", "5/4", "10", "4953959590107546/4503599627370496",  # 1.1
            "6079859496950170/2251799813685248"]  # 2.7


def window_us(period: int, input_period: int | None, max_age: Fraction) -> int:
    """`max(period, input period) * max_age` as CPython computes `timedelta * float` (exact ratio, half-even)."""
    base = period if input_period is None else max(period, input_period)
    return round(Fraction(base) * max_age)  # Fraction.__round__ rounds half to even


def add_samples(rng: random.Random, case: dict, first_due: int, tags: list[str]) -> None:
    p, wall0, end = case["period"], case["wall0"], case["end"]
    case["max_age"] = rng.choice(MAX_AGES)
    case["init_len"] = rng.choice([1, 2, 3, 4, 4, 8, 16])
    if rng.random() < 0.3:
        case["max_len"] = max(case["init_len"], rng.choice([2, 4, 8, 32]))
        if case["max_len"] < 2:
            case["max_len"] = 2
    ma = Fraction(case["max_age"])
    r0 = first_due % UNIT

    def off_tick(t: int) -> int:
        return t - ((t - r0) % UNIT) + 5

    n_grid = (end - first_due) // p + 1
    sends: list[dict] = []
    for a in [a for a in case["actions"] if a["op"] == "add"]:
        s, t_add = a["s"], a["t"]
        ratio = rng.choice([Fraction(1, 4), Fraction(1, 2), Fraction(1), Fraction(3, 2), Fraction(3), Fraction(5)])
        ip = max(UNIT, int(p * ratio) // UNIT * UNIT)
        tags.append("up-sampling" if ip > p else "down-sampling" if ip < p else "same-rate")
        w_guess = [window_us(p, None, ma), window_us(p, ip, ma)]
        t = t_add + rng.randrange(1, max(2, ip))
        last_ts = None
        n = 0
        silence_at = rng.choice([None, None, rng.randint(3, 30)])
        while t < end - p and n < 60:
            if silence_at is not None and n == silence_at:
                t += int(p * (ma + 2))  # longer than the maximum age
                tags.append("silence")
                silence_at = None
                continue
            burst = rng.choice([1, 1, 1, 1, 2, 4])
            if burst > 1:
                tags.append("burst")
            for _ in range(burst):
                ts = wall0 + t - rng.choice([0, 0, UNIT, p // 10])
                r = rng.random()
                k = max(0, min(n_grid, (t - first_due) // p + rng.choice([0, 1, 1, 2])))
                T = wall0 + first_due + k * p
                if r < 0.12:
                    ts = T + rng.choice([0, 0, 1, -1])
                    tags.append("stamp-at-T")
                elif r < 0.24:
                    ts = T - rng.choice(w_guess) + rng.choice([0, 0, 1, -1])
                    tags.append("stamp-at-T-W")
                elif r < 0.30:
                    ts = wall0 + t + rng.choice([p // 2, p, 2 * p])  # stamped in the future
                    tags.append("future-stamp")
                if last_ts is not None and ts < last_ts:
                    ts = last_ts
                v = "ok" if rng.random() < 0.86 else rng.choice(["nan", "none", "inf", "-inf"])
                if v in ("nan", "none"):
                    tags.append("invalid-sample")
                elif v != "ok":
                    tags.append("infinite-sample")
                sends.append({"t": off_tick(t), "op": "send", "s": s, "ts": ts, "v": v})
                last_ts = ts
                n += 1
            t += max(UNIT, int(ip * rng.choice([1, 1, 1, Fraction(1, 2), Fraction(3, 2)])))
    case["actions"] = sorted(case["actions"] + sends, key=lambda x: x["t"])  # stable: keeps per-series order


def helper_case_of_trace(case: dict, res: dict, sid: int) -> tuple[dict, dict] | None:
    """The event trace of one series as observed on the real resampler -> (model case, implementation output)."""
    events: list[dict] = []
    ticks: list[dict] = []
    for e in res["log"]:
        if e[0] == "recv" and e[1] == sid:
            _, _, j, ts, kind = e
            events.append({"op": "recv", "ts": ts, "id": j, "v": kind, **value_flags(kind)})
        elif e[0] == "emit" and e[1] == sid:
            _, _, T, v, _at, ip, maxlen = e
            if maxlen is None:
                return None
            if v is None:
                rel = []
            else:
                rel = [who[1] if who is not None and who[0] == sid else None
                       for (_ts, who) in res["calls"][int(v)]]  # None: not a sample fed to this series
            events.append({"op": "tick", "T": T, "est": ip})
            ticks.append({"rel": rel, "none": v is None, "err": False, "maxlen": maxlen, "ip": ip})
    if not ticks:
        return None
    mcase = {"kind": "helper", "period": case["period"], "max_age": case.get("max_age", "3"),
             "init_len": case.get("init_len", 16), "max_len": case.get("max_len", 1024), "events": events}
    return mcase, {"ticks": ticks}


# ----------------------------------------------------------------------------------------------- direct helper runs
def value_kind(x: float) -> str:
    """Canonical description of a float result (NaN is a value of its own, not "no value")."""
    if x != x:
        return "nan"
    if x in (float("inf"), float("-inf")):
        return "inf" if x > 0 else "-inf"
    return repr(float(x))


def run_helper_case(case: dict) -> dict:
    """Drive the real `_ResamplingHelper` synchronously with the events of `case`."""
    from frequenz.quantities import Quantity

    from frequenz.sdk.timeseries import Sample
    from frequenz.sdk.timeseries._resampling import ResamplerConfig, _ResamplingHelper

    calls: list = []
    ident: dict[int, int] = {}  # id(Sample object) -> id of the event; the objects are kept alive in `fed`
    fed: list = []

    fn_kinds = case.get("fn") or ["index"]  # what the resampling function returns, call after call (cyclic)
    returned: list = []

    def resampling_function(samples, config, props):  # type: ignore[no-untyped-def]
        calls.append([ident.get(id(s)) for s in samples])
        kind = fn_kinds[(len(calls) - 1) % len(fn_kinds)]
        if kind == "average":  # the stock function of the SDK (NaN for a window holding +inf and -inf)
            from frequenz.sdk.timeseries._resampling import average
            r = average(samples, config, props)
        else:
            r = {"index": float(len(calls) - 1), "nan": float("nan"), "inf": float("inf"), "-inf": float("-inf"),
                 "zero": 0.0, "negzero": -0.0, "tiny": 5e-324}[kind]
        returned.append(r)
        return r

    kwargs: dict = {}
    if case.get("max_len", 1024) != 1024:
        kwargs["max_buffer_len"] = case["max_len"]
        kwargs["warn_buffer_len"] = min(128, case["max_len"] - 1)
    config = ResamplerConfig(resampling_period=timedelta(microseconds=case["period"]),
                             max_data_age_in_periods=max_age_float(case), resampling_function=resampling_function,
                             initial_buffer_len=case["init_len"], **kwargs)
    helper = _ResamplingHelper("h", config)
    ticks = []
    vals: list = []  # per tick: was the function called, what did it return, what was emitted (canonical kinds)
    for e in case["events"]:
        if e["op"] in ("recv", "add"):
            if e.get("none") or e.get("nan"):
                if e["op"] == "recv":
                    continue  # `_StreamingHelper._receive_samples` is not part of this path; see run_loop_case
                q: Any = None if e.get("none") else Quantity(float("nan"))
            elif e.get("inf"):
                q = Quantity(VALUE_KINDS[e.get("v", "inf")])
            else:
                q = Quantity(float(e["id"]))
            sample = Sample(dt(e["ts"]), q)
            ident[id(sample)] = e["id"]
            fed.append(sample)
            helper.add_sample(sample)
        else:
            n_calls = len(calls)
            try:
                out = helper.resample(dt(e["T"]))
            except ZeroDivisionError:
                ticks.append({"rel": [], "none": False, "err": True, "maxlen": helper._buffer.maxlen,  # pylint: disable=protected-access
                              "ip": td_us(helper.source_properties.sampling_period)})
                vals.append(None)
                e["est"] = td_us(helper.source_properties.sampling_period)
                continue
            if us_of(out.timestamp) != e["T"]:
                raise AssertionError("helper changed the timestamp")
            if len(calls) > n_calls + 1:
                raise AssertionError("the resampling function was called more than once in one tick")
            # what was handed to the resampling function at this tick (nothing: it was not called)
            rel: list = calls[-1] if len(calls) == n_calls + 1 else []
            ip = td_us(helper.source_properties.sampling_period)
            e["est"] = ip
            ticks.append({"rel": rel, "none": out.value is None, "err": False,
                          "maxlen": helper._buffer.maxlen, "ip": ip})  # pylint: disable=protected-access
            vals.append({"called": len(calls) == n_calls + 1,
                         "returned": value_kind(returned[-1]) if len(calls) == n_calls + 1 else None,
                         "emitted": None if out.value is None else value_kind(out.value.base_value)})
    buf = [ident.get(id(s)) for s in helper._buffer]  # pylint: disable=protected-access
    return {"ticks": ticks, "buf": buf, "vals": vals}


# ----------------------------------------------------------------------------------------------- C08 oracle
def float_sensitive(case: dict, impl: dict) -> bool:
    """Does a float computation of the implementation (threshold of the estimate, ceil of the new buffer length)
    fall on the other side of an integer than the exact rational value the model uses?"""
    p = case["period"]
    ma_f, ma = max_age_float(case), max_age_fraction(case)
    thr_f = timedelta(microseconds=p).total_seconds() * ma_f
    thr = Fraction(p, 10**6) * ma
    if math.ceil(thr_f) != math.ceil(thr) or (Fraction(thr_f) == int(thr_f)) != (thr == int(thr)):
        return True
    for t in impl["ticks"]:
        ip = t["ip"]
        if ip is None or ip == 0:
            continue
        ip_s = timedelta(microseconds=ip).total_seconds()
        if ip > p:
            f, x = ip_s * ma_f, Fraction(ip, 10**6) * ma
        else:
            f, x = timedelta(microseconds=p).total_seconds() / ip_s * ma_f, Fraction(p, ip) * ma
        if math.ceil(f) != math.ceil(x):
            return True
    return False


def c08_oracle(case: dict, impl: dict) -> list[tuple[str, Any]]:
    """The statement of C08 on what the recording resampling function / the sink saw, recomputed from the fed history.

    Uses the input period read back from the implementation at each tick (the property speaks of "the input
    period"); the buffer length the deque must have, and everything else, is recomputed from the configuration and
    the events.
    """
    p, ma = case["period"], max_age_fraction(case)
    fails: list[tuple[str, Any]] = []
    valid: list[tuple[int, int]] = []  # (ts, id) of valid samples in arrival order
    held = 0  # how many of the most recent valid samples the deque still holds
    maxlen = case["init_len"]
    stamps = {}
    ip_prev: int | None = None
    ticks = iter(impl["ticks"])
    n_tick = 0
    for e in case["events"]:
        if e["op"] in ("recv", "add"):
            stamps[e["id"]] = e["ts"]
            if e.get("none") or e.get("nan"):
                continue
            valid.append((e["ts"], e["id"]))
            held = min(held + 1, maxlen)
            continue
        t = next(ticks)
        if t["err"]:
            fails.append(("no-value-emitted", {"T": e["T"], "input_period": t["ip"], "note": "the helper raised"}))
            n_tick += 1
            continue
        T = e["T"]
        # The configured buffer: `initial_buffer_len` until the input period is known; from the tick that estimates it
        # on, enough for `max_age` periods of data at the input rate — ceil(period / input period · max_age) (when
        # up-sampling: ceil(input period [s] · max_age)), at least 1, at most `max_buffer_len`.  The deque is rebuilt
        # (keeping the most recent samples) before the window is evaluated.
        want = maxlen
        if ip_prev is None and t["ip"] is not None and t["ip"] > 0:
            ip = t["ip"]
            x = Fraction(ip, 10**6) * ma if ip > p else Fraction(p, ip) * ma
            ma_f = max_age_float(case)
            ip_s, p_s = timedelta(microseconds=ip).total_seconds(), timedelta(microseconds=p).total_seconds()
            f = ip_s * ma_f if ip > p else p_s / ip_s * ma_f
            if math.ceil(f) == math.ceil(x):
                want = min(case.get("max_len", 1024), max(1, math.ceil(x)))
            else:
                want = t["maxlen"]  # the float result lies on the other side of an integer: not judged
        ip_prev = t["ip"]
        if t["maxlen"] != want:
            fails.append(("buffer-length", {"T": T, "configured_for": want, "actual_maxlen": t["maxlen"],
                                            "input_period": t["ip"], "max_buffer_len": case.get("max_len", 1024)}))
        if want != maxlen:
            maxlen = want
            held = min(held, maxlen)
        W = window_us(p, t["ip"], ma)
        recent = valid[len(valid) - held:] if held else []
        expect = [i for (ts, i) in recent if T - W < ts <= T]
        if t["rel"] != expect:
            fails.append(("window", {"T": T, "W": W, "expected": expect, "passed": t["rel"], "maxlen": maxlen,
                                     "input_period": t["ip"]}))
        if any(i is None or stamps.get(i, T + 1) > T for i in t["rel"]):
            fails.append(("future-or-invalid", {"T": T, "passed": t["rel"]}))
        valid_ids = {i for (_ts, i) in valid}
        if any(i not in valid_ids for i in t["rel"]):
            fails.append(("invalid-passed", {"T": T, "passed": t["rel"]}))
        if t["none"] != (len(expect) == 0):
            fails.append(("none-iff-empty", {"T": T, "expected": expect, "emitted_none": t["none"]}))
        v = (impl.get("vals") or [None] * (n_tick + 1))[n_tick]
        if v is not None:
            # the emitted value is the resampling function's result on the relevant samples — whatever that result is
            # (NaN, ±inf, 0 are results, not "no value") — and the function is called exactly when there are some
            if v["called"] != (len(expect) > 0):
                fails.append(("function-called-iff-nonempty", {"T": T, "expected": expect, "called": v["called"]}))
            if v["called"] and v["emitted"] != v["returned"]:
                fails.append(("value-is-function-result", {"T": T, "passed": t["rel"], "function_returned": v["returned"],
                                                           "emitted": v["emitted"]}))
        n_tick += 1
    return fails


def time_ordered(case: dict) -> bool:
    last = None
    for e in case["events"]:
        if e["op"] in ("recv", "add") and not (e.get("none") or e.get("nan")):
            if last is not None and e["ts"] < last:
                return False
            last = e["ts"]
    return True


# ----------------------------------------------------------------------------------------------- helper generator
def gen_helper_case(rng: random.Random, ordered: bool = True, exotic: bool = False) -> tuple[dict, list[str]]:
    """Integer-µs timeline for `_ResamplingHelper`: ticks on a grid, samples between them with boundary stamps."""
    p = rng.choice(PERIODS[:10] if not exotic else [1, 2, 3, 7, 10, 999, 1001])
    max_age = rng.choice(MAX_AGES)
    ma = Fraction(max_age)
    init_len = rng.choice([1, 1, 2, 3, 4, 4, 5, 8, 16])
    max_len = 1024 if rng.random() < 0.7 else max(2, init_len, rng.choice([2, 3, 4, 8, 32]))
    tags: list[str] = []
    ratio = rng.choice([Fraction(1, 8), Fraction(1, 4), Fraction(1, 2), Fraction(1), Fraction(3, 2), Fraction(3), Fraction(7)])
    ip = max(1, int(p * ratio))
    tags.append("up-sampling" if ip > p else "down-sampling" if ip < p else "same-rate")
    T0 = rng.choice([0, 10**6, 1_700_000_000_000_000]) + rng.randrange(p) + 5 * p
    n_ticks = rng.randint(2, 12)
    events: list[dict] = []
    nid = 0
    last_ts: int | None = None
    t = T0 - rng.randint(0, 3) * p - rng.randrange(max(1, ip))
    ip_now: int | None = None  # the generator's guess of the input period in force (for boundary stamps)
    budget = 60
    for k in range(n_ticks):
        T = T0 + k * p
        Ws = {window_us(p, None, ma), window_us(p, ip, ma)} | ({window_us(p, ip_now, ma)} if ip_now else set())
        # regular arrivals up to this tick
        stamps: list[int] = []
        while t <= T and len(stamps) < 40:
            stamps.append(t)
            t += max(1, int(ip * rng.choice([1, 1, 1, Fraction(1, 2), Fraction(3, 2)])))
        if rng.random() < 0.15:
            stamps = []  # silence
            tags.append("silence")
        # boundary stamps
        for W in Ws:
            if rng.random() < 0.35:
                stamps.append(T - W + rng.choice([0, 0, 1, -1]))
                tags.append("stamp-at-T-W")
        if rng.random() < 0.4:
            stamps.append(T + rng.choice([0, 0, 1, -1]))
            tags.append("stamp-at-T")
        if rng.random() < 0.2:
            stamps.append(T + rng.choice([1, p // 2 + 1, p, 2 * p]))
            tags.append("future-stamp")
        if rng.random() < 0.15 and stamps:
            stamps += [stamps[-1]] * rng.randint(1, 4)
            tags.append("burst")
        if ordered:
            stamps.sort()
        else:
            rng.shuffle(stamps)
        for ts in stamps:
            if budget <= 0:
                break
            if ordered and last_ts is not None and ts < last_ts:
                ts = last_ts
            r = rng.random()
            ev = {"op": "recv", "ts": ts, "id": nid, "none": False, "nan": False}
            if r < 0.04:
                ev["nan"] = True
                tags.append("invalid-sample")
            elif r < 0.08:
                ev["none"] = True
                tags.append("invalid-sample")
            elif r < 0.12:
                ev["inf"] = True
                ev["v"] = rng.choice(["inf", "-inf"])
                tags.append("infinite-sample")
            events.append(ev)
            nid += 1
            budget -= 1
            if not (ev["nan"] or ev["none"]):
                last_ts = ts if last_ts is None else max(last_ts, ts)
        events.append({"op": "tick", "T": T, "est": None})
        if ip_now is None and nid >= init_len:
            ip_now = ip
    if not ordered:
        tags.append("unordered")
    case = {"kind": "helper", "period": p, "max_age": max_age, "init_len": init_len, "max_len": max_len, "events": events}
    r = rng.random()
    if r < 0.30:
        # the resampling function's results are arbitrary floats: NaN / ±inf / ±0 / denormal are results like any other;
        # `average` is the SDK's stock function (NaN over a window that holds +inf and -inf)
        if r < 0.08:
            case["fn"] = ["average"]
            if rng.random() < 0.7:  # make a window with both infinities likely
                recvs = [e for e in events if e["op"] == "recv" and not (e["nan"] or e["none"])]
                for e, v in zip(rng.sample(recvs, min(len(recvs), rng.randint(2, 6))), ["inf", "-inf"] * 3):
                    e["inf"], e["v"] = True, v
                tags.append("infinite-sample")
        else:
            case["fn"] = [rng.choice(["nan", "inf", "-inf", "zero", "negzero", "tiny", "index"]) for _ in range(rng.randint(1, 4))]
        tags += [f"fn-{k}" for k in sorted(set(case["fn"]))]
    return case, tags



def gen_fast_source_case(rng: random.Random) -> tuple[dict, list[str]]:
    """A source much faster than the resampling period: once its period is estimated the deque must grow to
    ceil(period / input period · max_age) — targets just around the warn (128) and the maximum (1024) length."""
    p = rng.choice([100_000, 1_000_000, 1_000_000, 2_000_000])
    max_age = rng.choice(["1", "1", "3/2", "2", "3"])
    ma = Fraction(max_age)
    target = rng.choice([100, 127, 128, 129, 130, 160, 200, 256, 300, 500, 1000, 1023, 1024, 1025, 1400])
    max_len = 1024 if rng.random() < 0.75 else rng.choice([200, 300, 2000])
    init_len = rng.choice([4, 8, 16, 16])
    ip = max(1, int(Fraction(p) * ma / target))
    tags = ["fast-source", "down-sampling",
            "target-len-" + ("<=128" if target <= 128 else "129..1024" if target <= min(1024, max_len) else ">max")]
    T0 = rng.choice([0, 1_700_000_000_000_000]) + 5 * p
    events: list[dict] = []
    nid = 0
    t = T0 - p + rng.randrange(1, max(2, ip))
    n_ticks = 2 + int(ma) + rng.randint(0, 1)
    for k in range(n_ticks):
        T = T0 + k * p
        while t <= T:
            ts = t
            if rng.random() < 0.01:
                ts = T  # stamped exactly at the tick
            events.append({"op": "recv", "ts": min(ts, T) if ts > T else ts, "id": nid, "none": False, "nan": False})
            nid += 1
            t += ip
        events.append({"op": "tick", "T": T, "est": None})
    case = {"kind": "helper", "period": p, "max_age": max_age, "init_len": init_len, "max_len": max_len, "events": events}
    return case, tags
