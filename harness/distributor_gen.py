"""Runners and generators shared by C14 (request scheduling) and C15 (result accounting).

C14: the REAL `PowerDistributingActor` runs on an `async_solipsism` loop.  Only two things are replaced,
both owned by the harness: the component manager (a probe that records enter/exit of `distribute_power`
and finishes on command, normally or by raising) and the requests receiver (observed with `.map`).
The actor's own methods are neither patched nor spied on.
Requests are first-class: every `send` action creates ONE `Request` object with an identity `r` (unique in the
script) and fields (`p` = power in W, `adj` = adjust_power, component set = its group).  The harness remembers
the objects it created; what arrives at the actor, what sits in `_pending_requests` and what the probe's
`distribute_power` receives is identified BY OBJECT (`is`), and the fields are read off the received object.
Several requests of a script may ask for the same power or be equal field by field.

C15: the REAL `BatteryManager` / `PVManager` run on the same kind of loop against a fake microgrid:
a real component graph, real `LatestValueCache`s fed through real `Broadcast` channels, a scripted API
client (`set_power` succeeds / is rejected / errors / raises / never answers, timed by the virtual clock)
and a stub status tracker (the health tracking itself belongs to C16).
"""
from __future__ import annotations

import asyncio
import random
from datetime import datetime, timedelta, timezone
from fractions import Fraction
from typing import Any
from unittest import mock


# ============================================================================ C14
class ProbeError(Exception):
    """What the probe manager raises for an `exc` completion."""


class _Harness14:
    def __init__(self, groups: list[list[int]]):
        self.groups = [frozenset(g) for g in groups]
        self.index = {g: i for i, g in enumerate(self.groups)}
        # (arrive|enter, g, r, p, adj, t_us) | (exit, g, r, t_us) | (done, g, r, outcome, t_us)
        # r = identity of the Request object (-1: an object the harness never sent), p/adj = its fields as seen there
        self.log: list[tuple] = []
        self.sent: list[tuple[int, Any]] = []  # (identity, the Request object) — keeps the objects alive
        self.futs: dict[int, tuple[int, asyncio.Future]] = {}
        self.precommand: dict[int, str] = {}
        self.running: dict[int, list[int]] = {i: [] for i in range(len(groups))}
        self.max_running: dict[int, int] = {i: 0 for i in range(len(groups))}

    def now(self) -> int:
        return round(asyncio.get_running_loop().time() * 1_000_000)

    def ident(self, request: Any) -> int:
        """Identity of a request object = the number under which the harness created it (never its content)."""
        for r, obj in self.sent:
            if obj is request:
                return r
        return -1

    @staticmethod
    def fields(request: Any) -> tuple[int, bool]:
        return int(request.power.as_watts()), bool(request.adjust_power)

    def observe_arrival(self, request: Any) -> Any:
        g = self.index[frozenset(request.component_ids)]
        self.log.append(("arrive", g, self.ident(request), *self.fields(request), self.now()))
        return request


def _make_probe(h: _Harness14):
    class Probe:
        """Stands in for BatteryManager inside the real actor."""

        def __init__(self, *_a: Any, **_k: Any) -> None:
            pass

        def component_ids(self):
            return set()

        async def start(self) -> None:
            return None

        async def stop(self) -> None:
            return None

        async def distribute_power(self, request: Any) -> None:
            g = h.index[frozenset(request.component_ids)]
            r = h.ident(request)
            h.log.append(("enter", g, r, *h.fields(request), h.now()))
            h.running[g].append(r)
            h.max_running[g] = max(h.max_running[g], len(h.running[g]))

            def on_done(t: asyncio.Task) -> None:
                o = "exc" if (not t.cancelled() and t.exception() is not None) else "ok"
                h.log.append(("done", g, r, o, h.now()))

            task = asyncio.current_task()
            assert task is not None
            task.add_done_callback(on_done)
            try:
                cmd = h.precommand.pop(g, None)
                if cmd is None:
                    fut = asyncio.get_running_loop().create_future()
                    h.futs[g] = (r, fut)
                    cmd = await fut
                if cmd == "exc":
                    raise ProbeError(f"request {r} of group {g}")
            finally:
                h.running[g].remove(r)
                h.log.append(("exit", g, r, h.now()))

    return Probe


async def _drain(n: int = 12) -> None:
    for _ in range(n):
        await asyncio.sleep(0)


def send_power(act: dict) -> int:
    """Power (W) of a `send` action; scripts written before requests had fields used the identity as power."""
    return int(act.get("p", act["r"]))


def send_adjust(act: dict) -> bool:
    return bool(act.get("adj", True))


def run_actor_script(script: dict) -> dict:
    """Run one script on a fresh real actor.  Returns the observed log and state snapshots."""
    import async_solipsism
    from frequenz.channels import Broadcast
    from frequenz.client.microgrid import ComponentCategory
    from frequenz.quantities import Power

    from frequenz.sdk.microgrid._power_distributing import PowerDistributingActor, Request
    from frequenz.sdk.microgrid._power_distributing import power_distributing as pd

    h = _Harness14(script["groups"])
    snaps: list[dict] = []
    marks: list[int] = []  # log length at each snapshot

    async def main() -> None:
        reqs = Broadcast[Request](name="requests")
        res = Broadcast[Any](name="results")
        status = Broadcast[Any](name="status")
        with mock.patch.object(pd, "BatteryManager", _make_probe(h)):
            actor = PowerDistributingActor(
                requests_receiver=reqs.new_receiver(limit=1000).map(h.observe_arrival),
                results_sender=res.new_sender(),
                component_pool_status_sender=status.new_sender(),
                api_power_request_timeout=timedelta(seconds=5.0),
                component_category=ComponentCategory.BATTERY,
            )
        actor.start()
        await _drain()
        tx = reqs.new_sender()

        def snapshot() -> None:
            proc, pend = [], []
            for i, g in enumerate(h.groups):
                if g in actor._processing_tasks:  # pylint: disable=protected-access
                    proc.append(h.running[i][0] if len(h.running[i]) == 1 else -1 - len(h.running[i]))
                else:
                    proc.append(None)
                p = actor._pending_requests.get(g)  # pylint: disable=protected-access
                pend.append(None if p is None else [h.ident(p), *h.fields(p)])
            snaps.append({"processing": proc, "pending": pend})
            marks.append(len(h.log))

        def finish(g: int, o: str) -> None:
            if g in h.futs and not h.futs[g][1].done():
                h.futs.pop(g)[1].set_result(o)
            else:
                h.precommand[g] = o

        for act in script["actions"]:
            if act["a"] == "send":
                req = Request(power=Power.from_watts(float(send_power(act))), component_ids=set(h.groups[act["g"]]),
                              adjust_power=send_adjust(act))
                h.sent.append((act["r"], req))
                await tx.send(req)
            elif act["a"] == "finish":
                finish(act["g"], act["o"])
            elif act["a"] == "sleep":
                await asyncio.sleep(act["ms"] / 1000.0)
            if act.get("drain", True):
                await _drain()
                snapshot()
        # flush: let everything that is still in flight finish normally
        await _drain()
        h.precommand.clear()
        for _ in range(4):
            if not any(not f.done() for _, f in h.futs.values()):
                break
            for g in list(h.futs):
                finish(g, "ok")
            await _drain()
        snapshot()
        h.extra_tasks = len(actor._processing_tasks)  # type: ignore[attr-defined]  # pylint: disable=protected-access
        await actor.stop()

    loop = async_solipsism.EventLoop()
    try:
        asyncio.set_event_loop(loop)
        loop.run_until_complete(main())
    finally:
        asyncio.set_event_loop(None)
        loop.close()
    return {"log": [list(x) for x in h.log], "snaps": snaps, "marks": marks, "max_running": h.max_running,
            "left_registered": getattr(h, "extra_tasks", None)}


def model_case_from_log(script: dict, obs: dict) -> tuple[dict, dict]:
    """Observed linearisation -> (driver input, implementation output in the driver's format)."""
    events: list[dict] = []
    marks = list(obs["marks"])
    snaps_at = {}
    for m in marks:
        snaps_at[m] = snaps_at.get(m, 0) + 1
    starts: list[list[int]] = []
    n_groups = len(script["groups"])
    started = [0] * n_groups
    completed = [0] * n_groups
    for i, entry in enumerate(obs["log"]):
        for _ in range(snaps_at.get(i, 0)):
            events.append({"e": "snap"})
        if entry[0] == "arrive":
            events.append({"e": "arrive", "g": entry[1], "r": entry[2], "p": entry[3], "adj": entry[4]})
        elif entry[0] == "done":
            events.append({"e": "complete", "g": entry[1], "o": entry[3]})
            completed[entry[1]] += 1
        elif entry[0] == "enter":
            starts.append([entry[1], entry[2], entry[3], entry[4]])
            started[entry[1]] += 1
    for _ in range(snaps_at.get(len(obs["log"]), 0)):
        events.append({"e": "snap"})
    case = {"groups": list(range(n_groups)), "events": events}
    impl = {"starts": starts, "snaps": obs["snaps"], "inflight": [s - c for s, c in zip(started, completed)]}
    return case, impl


def gen_actor_script(rng: random.Random, n_groups: int, n_actions: int) -> dict:
    """Random schedule: arrivals and completions with and without yielding to the loop in between."""
    pool = [[1, 2], [3], [2, 3], [4, 5, 6]]  # overlapping-but-different sets are different groups
    rng.shuffle(pool)
    groups = pool[:n_groups]
    busy = [0] * n_groups  # generator's guess, only used to bias towards interesting schedules
    actions: list[dict] = []
    p_nodrain = rng.choice([0.0, 0.15, 0.4, 0.8])
    next_r = 0
    # fields: a request repeats the power of the previous request of its group with probability `p_same`
    # (then with the other / the same adjust_power flag: equal power but different request / equal content but a
    # different object), otherwise a power from a small pool (so equal powers also recur by chance)
    p_same = rng.choice([0.0, 0.3, 0.6, 0.9])
    powers = [-5000, -1000, 0, 1000, 5000]
    last: dict[int, tuple[int, bool]] = {}

    def fields(g: int) -> dict:
        if g in last and rng.random() < p_same:
            p, adj = last[g]
            if rng.random() < 0.6:
                adj = not adj
        else:
            p, adj = rng.choice(powers), rng.random() < 0.7
        last[g] = (p, adj)
        return {"p": p, "adj": adj}
    for _ in range(n_actions):
        g = rng.randrange(n_groups)
        x = rng.random()
        if x < 0.5 or not busy[g]:
            if rng.random() < 0.15:
                # an "instant" request: its outcome is decided before it enters
                actions.append({"a": "finish", "g": g, "o": rng.choice(["ok", "exc"]), "drain": False})
            next_r += 1
            actions.append({"a": "send", "g": g, "r": next_r, **fields(g), "drain": rng.random() >= p_nodrain})
            busy[g] = min(2, busy[g] + 1)
        elif x < 0.93:
            actions.append({"a": "finish", "g": g, "o": rng.choice(["ok", "ok", "exc"]), "drain": rng.random() >= p_nodrain})
            busy[g] -= 1
        else:
            actions.append({"a": "sleep", "ms": rng.choice([1, 500, 6000]), "drain": True})
    return {"groups": groups, "actions": actions}


def enum_actor_scripts(n_groups: int, length: int):
    """All admissible event sequences of exactly `length` events (arrive g | complete g ok/exc), drained after
    every event.  Admissibility is tracked with the obvious counter (busy / busy+waiting).  The fields of the
    requests are not enumerated: they are drawn (deterministically per script, independent of VERIF_SEED) from
    {1000, 5000} W x {adjust, no adjust}, so most scripts have waiting requests of equal power / equal content."""
    groups = [[1, 2], [3], [4]][:n_groups]
    count = [0]

    def with_fields(actions: list[dict]) -> list[dict]:
        rng = random.Random(f"enum/{n_groups}/{length}/{count[0]}")
        count[0] += 1
        return [dict(a, p=rng.choice([1000, 5000]), adj=rng.random() < 0.5) if a["a"] == "send" else dict(a)
                for a in actions]

    def rec(prefix: list[dict], st: tuple[int, ...]):
        if len(prefix) == length:
            yield {"groups": groups, "actions": with_fields(prefix)}
            return
        for g in range(n_groups):
            ns = list(st)
            ns[g] = 1 if st[g] == 0 else 2
            r = 1 + sum(1 for a in prefix if a["a"] == "send")
            yield from rec(prefix + [{"a": "send", "g": g, "r": r, "drain": True}], tuple(ns))
            if st[g] > 0:
                ns = list(st)
                ns[g] = st[g] - 1
                for o in ("ok", "exc"):
                    yield from rec(prefix + [{"a": "finish", "g": g, "o": o, "drain": True}], tuple(ns))

    yield from rec([], tuple([0] * n_groups))


def restrict_script(script: dict, g: int) -> dict:
    """The same schedule with only the actions of group `g`: the actions of the other groups are replaced by
    no-ops that yield to the loop exactly where the original did (request numbers are kept)."""
    return {"groups": script["groups"],
            "actions": [a if (a["a"] == "sleep" or a.get("g") == g) else {"a": "nop", "drain": a.get("drain", True)}
                        for a in script["actions"]]}


# ============================================================================ C15
TIMEOUT_US = 5_000_000
OUTCOMES = ["ok", "outOfRange", "clientError", "exception", "timeout"]
GRID, METER = 1, 2


class UnexpectedError(Exception):
    """The 'unexpected exception' outcome of a scripted `set_power` call."""


import contextvars

# which request of a concurrent case the running coroutine works for (set by the harness' distribution-algorithm hook
# inside the request's own task; the `set_power` tasks created there inherit it)
CURRENT_REQUEST: contextvars.ContextVar = contextvars.ContextVar("c15_current_request", default=None)


class FakeApi:
    """Scripted microgrid API client: data streams are real Broadcast channels, `set_power` follows a script."""

    def __init__(self, component_ids: list[int]) -> None:
        from frequenz.channels import Broadcast

        self.channels = {cid: Broadcast[Any](name=f"data-{cid}", resend_latest=True) for cid in component_ids}
        self.senders = {cid: ch.new_sender() for cid, ch in self.channels.items()}
        self.calls: list[tuple[int, float]] = []
        self.owners: list[Any] = []            # per call: the request it was made for (concurrent cases), else None
        self.script: dict[int, dict] = {}
        self.owner_script: dict[Any, dict[int, dict]] = {}   # request -> its own script (overrides `script`)

    async def battery_data(self, cid: int, maxsize: int = 50) -> Any:
        return self.channels[cid].new_receiver(limit=maxsize)

    async def inverter_data(self, cid: int, maxsize: int = 50) -> Any:
        return self.channels[cid].new_receiver(limit=maxsize)

    async def set_power(self, component_id: int, power_w: float) -> None:
        from frequenz.client.microgrid import ApiClientError, OperationOutOfRange

        owner = CURRENT_REQUEST.get()
        self.calls.append((component_id, power_w))
        self.owners.append(owner)
        call = self.owner_script.get(owner, self.script).get(component_id, {"kind": "ok", "delay": 0})
        if call["kind"] == "timeout" and call["delay"] <= 0:
            await asyncio.get_running_loop().create_future()  # never answers
        if call["delay"] > 0:
            await asyncio.sleep(call["delay"] / 1_000_000)
        kind = call["kind"]
        if kind in ("ok", "timeout"):
            return None
        if kind == "outOfRange":
            err = mock.MagicMock()
            err.code.return_value.name = "OUT_OF_RANGE"
            err.details.return_value = "power out of range"
            err.debug_error_string.return_value = ""
            raise OperationOutOfRange(server_url="grpc://fake", operation="set_power", grpc_error=err)
        if kind == "clientError":
            raise ApiClientError(server_url="grpc://fake", operation="set_power",
                                 description="scripted client error", retryable=False)
        raise UnexpectedError("scripted unexpected exception")


class FakeTracker:
    """Stands in for ComponentPoolStatusTracker (C16 checks the real one): the harness says what works."""

    current: "FakeTracker | None" = None

    def __init__(self, **_kw: Any) -> None:
        self.working: list[int] | None = None
        self.as_list = False
        self.updates: list[tuple[list[int], list[int]]] = []
        FakeTracker.current = self

    def get_working_components(self, ids: Any) -> Any:
        w = [i for i in (self.working if self.working is not None else sorted(ids)) if i in ids]
        return w if self.as_list else set(w)

    async def update_status(self, succeeded: Any, failed: Any) -> None:
        self.updates.append((sorted(succeeded), sorted(failed)))

    async def stop(self) -> None:
        return None


class FakeConnectionManager:
    def __init__(self, api: FakeApi, graph: Any) -> None:
        self.api_client = api
        self.component_graph = graph
        self.microgrid_id = 1
        self.location = None


def build_graph(kind: str, topo: dict) -> tuple[Any, list[int]]:
    """grid -> meter -> inverters (-> batteries).  topo: {"inv_bats": [[inv, [bat,…]],…]} or {"invs": [id,…]}."""
    from frequenz.client.microgrid import Component, ComponentCategory, Connection, InverterType

    from frequenz.sdk.microgrid.component_graph import _MicrogridComponentGraph

    comps = {Component(GRID, ComponentCategory.GRID), Component(METER, ComponentCategory.METER)}
    conns = {Connection(GRID, METER)}
    ids: list[int] = []
    if kind == "battery":
        for inv, bats in topo["inv_bats"]:
            comps.add(Component(inv, ComponentCategory.INVERTER, InverterType.BATTERY))
            conns.add(Connection(METER, inv))
            ids.append(inv)
            for b in bats:
                comps.add(Component(b, ComponentCategory.BATTERY))
                conns.add(Connection(inv, b))
                if b not in ids:
                    ids.append(b)
    else:
        for inv in topo["invs"]:
            comps.add(Component(inv, ComponentCategory.INVERTER, InverterType.SOLAR))
            conns.add(Connection(METER, inv))
            ids.append(inv)
    return _MicrogridComponentGraph(comps, conns), ids


def _fl(x: Any) -> float:
    return float(Fraction(x))


def run_manager_cases(kind: str, topo: dict, data: dict, cases: list[dict]) -> list[dict]:
    """Run `cases` one after the other through a REAL PowerDistributingActor (battery or PV manager inside)
    on a fresh virtual-time loop and a fresh fake microgrid.  Returns one observation per case."""
    import async_solipsism
    from frequenz.channels import Broadcast
    from frequenz.client.microgrid import ComponentCategory, InverterType
    from frequenz.quantities import Power

    from frequenz.sdk.microgrid import connection_manager
    from frequenz.sdk.microgrid._power_distributing import PowerDistributingActor, Request
    from frequenz.sdk.microgrid._power_distributing import _distribution_algorithm as algo
    from frequenz.sdk.microgrid._power_distributing._component_managers import _battery_manager as bm
    from frequenz.sdk.microgrid._power_distributing._component_managers._pv_inverter_manager import (
        _pv_inverter_manager as pm,
    )
    from frequenz.sdk.microgrid._power_distributing.result import PartialFailure, Success
    from tests.utils.component_data_wrapper import BatteryDataWrapper, InverterDataWrapper

    graph, ids = build_graph(kind, topo)
    out: list[dict] = []

    async def main() -> None:
        api = FakeApi(ids)
        cm = FakeConnectionManager(api, graph)
        reqs = Broadcast[Request](name="requests")
        res = Broadcast[Any](name="results")
        status = Broadcast[Any](name="status")
        results_rx = res.new_receiver(limit=100)
        with mock.patch.object(connection_manager, "_CONNECTION_MANAGER", cm), \
                mock.patch.object(bm, "ComponentPoolStatusTracker", FakeTracker), \
                mock.patch.object(pm, "ComponentPoolStatusTracker", FakeTracker):
            actor = PowerDistributingActor(
                requests_receiver=reqs.new_receiver(limit=100),
                results_sender=res.new_sender(),
                component_pool_status_sender=status.new_sender(),
                api_power_request_timeout=timedelta(microseconds=TIMEOUT_US),
                component_category=ComponentCategory.BATTERY if kind == "battery" else ComponentCategory.INVERTER,
                component_type=None if kind == "battery" else InverterType.SOLAR,
            )
            tracker = FakeTracker.current
            assert tracker is not None
            tracker.as_list = kind == "pv"
            actor.start()
            await _drain()
            now = datetime.now(tz=timezone.utc)
            if kind == "battery":
                for b, d in data["batteries"].items():
                    await api.senders[int(b)].send(BatteryDataWrapper(
                        int(b), now, soc=_fl(d["soc"]), soc_lower_bound=_fl(d["soc_lo"]), soc_upper_bound=_fl(d["soc_hi"]),
                        capacity=_fl(d["cap"]), power_inclusion_lower_bound=_fl(d["incl"][0]),
                        power_inclusion_upper_bound=_fl(d["incl"][1]), power_exclusion_lower_bound=_fl(d["excl"][0]),
                        power_exclusion_upper_bound=_fl(d["excl"][1])))
                for i, d in data["inverters"].items():
                    await api.senders[int(i)].send(InverterDataWrapper(
                        int(i), now, active_power_inclusion_lower_bound=_fl(d["incl"][0]),
                        active_power_inclusion_upper_bound=_fl(d["incl"][1]),
                        active_power_exclusion_lower_bound=_fl(d["excl"][0]),
                        active_power_exclusion_upper_bound=_fl(d["excl"][1])))
            await _drain()
            tx = reqs.new_sender()
            manager = actor._component_manager  # pylint: disable=protected-access
            real_algo = getattr(manager, "_distribution_algorithm", None)
            def observation(result: Any, calls: list, seen: dict, elapsed_us: int) -> dict:
                obs: dict = {"calls": [[c, w] for c, w in calls], "type": type(result).__name__ if result is not None else None,
                             "elapsed_us": elapsed_us, "dist": seen.get("dist"), "remaining": seen.get("remaining"),
                             "tracker_updates": tracker.updates,
                             "still_registered": len(actor._processing_tasks)}  # pylint: disable=protected-access
                if isinstance(result, (Success, PartialFailure)):
                    obs["succeeded_power"] = result.succeeded_power.as_watts()
                    obs["succeeded"] = sorted(result.succeeded_components)
                    obs["excess"] = result.excess_power.as_watts()
                    obs["request_power"] = result.request.power.as_watts()
                    if isinstance(result, PartialFailure):
                        obs["failed_power"] = result.failed_power.as_watts()
                        obs["failed"] = sorted(result.failed_components)
                return obs

            async def run_concurrent(cc: dict) -> dict:
                """Several requests for DISJOINT component sets of this manager, request k sent `at_us` after the
                first one — i.e. while the `set_power` calls of the others are pending.  Results are matched to
                the requests by the `request` object they carry, the recorded calls by the component they address."""
                subs = cc["reqs"]
                loop = asyncio.get_running_loop()
                api.calls, api.owners = [], []
                api.script = {int(k): v for sub in subs for k, v in sub["calls"].items()}
                api.owner_script = {}
                tracker.updates = []
                seens: list[dict] = [{} for _ in subs]
                if kind == "pv":
                    for sub in subs:
                        for i, b in sub["invs"]:
                            await api.senders[int(i)].send(InverterDataWrapper(
                                int(i), now, active_power_inclusion_lower_bound=_fl(b), active_power_inclusion_upper_bound=0.0))
                    await _drain()
                    comp_sets = [{int(i) for i, _ in sub["invs"]} | set(sub.get("extra_ids", [])) for sub in subs]
                    call_owner = [{int(i) for i, _ in sub["invs"]} for sub in subs]
                    # (iteration order of the working inverters matters for ties of the sort: keep each request's order)
                    tracker.working = [i for sub in subs for i in sub.get("working", [j for j, _ in sub["invs"]])]
                else:
                    comp_sets = [{b for _, bats in sub["topo"] for b in bats} for sub in subs]
                    call_owner = [{i for i, _ in sub["topo"]} for sub in subs]
                    tracker.working = None if any(sub.get("working") is None for sub in subs) else \
                        sorted({b for sub in subs for b in sub["working"]})

                    # every request has its own script (the component sets may overlap: same inverter, different request)
                    api.owner_script = {n: {int(c): v for c, v in sub["calls"].items()} for n, sub in enumerate(subs)}

                    def distribute(power: float, pairs: Any) -> Any:
                        invs = {i.component_id for p in pairs for i in p.inverter}
                        exact = [n for n, own in enumerate(call_owner) if invs == own]
                        k = exact[0] if exact else [n for n, own in enumerate(call_owner) if invs <= own and invs][0]
                        CURRENT_REQUEST.set(k)  # runs inside the request's own task: its set_power tasks inherit it
                        stub = subs[k].get("stub")
                        if stub is not None:
                            r = algo.DistributionResult({int(i): _fl(w) for i, w in stub["dist"]}, _fl(stub["remaining"]))
                        else:
                            r = real_algo.distribute_power(power, pairs)
                        seens[k]["dist"] = [[i, w] for i, w in r.distribution.items()]
                        seens[k]["remaining"] = r.remaining_power
                        return r

                    manager._distribution_algorithm = mock.MagicMock()  # pylint: disable=protected-access
                    manager._distribution_algorithm.distribute_power = distribute  # pylint: disable=protected-access
                t0 = loop.time()
                reqs: list[Any] = [None] * len(subs)
                for k in sorted(range(len(subs)), key=lambda n: (subs[n].get("at_us", 0), n)):
                    wait = t0 + subs[k].get("at_us", 0) / 1e6 - loop.time()
                    if wait > 0:
                        await asyncio.sleep(wait)
                    reqs[k] = Request(power=Power.from_watts(_fl(subs[k]["P"])), component_ids=comp_sets[k],
                                      adjust_power=subs[k].get("adjust", True))
                    await tx.send(reqs[k])
                results: list[Any] = [None] * len(subs)
                got = [False] * len(subs)
                stray = 0
                deadline = loop.time() + 3 * TIMEOUT_US / 1e6
                while not all(got) and loop.time() < deadline:
                    try:
                        r = await asyncio.wait_for(results_rx.receive(), timeout=deadline - loop.time())
                    except asyncio.TimeoutError:
                        break
                    ks = [k for k, q in enumerate(reqs) if getattr(r, "request", None) is q and not got[k]]
                    if ks:
                        results[ks[0]], got[ks[0]] = r, True
                    else:
                        stray += 1
                await _drain(4)
                elapsed = round((loop.time() - t0) * 1e6)
                if kind == "pv":
                    mine = [[(c, w) for c, w in api.calls if c in call_owner[k]] for k in range(len(subs))]
                    unattributed = 0
                else:
                    mine = [[cw for cw, o in zip(api.calls, api.owners) if o == k] for k in range(len(subs))]
                    unattributed = sum(1 for o in api.owners if o is None)
                api.owner_script = {}
                return {"concurrent": [observation(results[k], mine[k], seens[k], elapsed) for k in range(len(subs))],
                        "stray_results": stray, "unattributed_calls": unattributed}

            for case in cases:
                if case.get("kind") == "concurrent":
                    out.append(await run_concurrent(case))
                    continue
                api.calls, api.owners = [], []
                api.script = {int(k): v for k, v in case["calls"].items()}
                tracker.working = case.get("working")
                tracker.updates = []
                seen: dict = {}
                if kind == "pv":
                    for i, b in case["invs"]:
                        await api.senders[int(i)].send(InverterDataWrapper(
                            int(i), now, active_power_inclusion_lower_bound=_fl(b), active_power_inclusion_upper_bound=0.0))
                    await _drain()
                    component_ids = {int(i) for i, _ in case["invs"]} | set(case.get("extra_ids", []))
                else:
                    component_ids = {b for _, bats in topo["inv_bats"] for b in bats}
                    stub = case.get("stub")

                    def distribute(power: float, pairs: Any, stub: Any = stub, seen: dict = seen) -> Any:
                        if stub is not None:
                            r = algo.DistributionResult({int(i): _fl(w) for i, w in stub["dist"]}, _fl(stub["remaining"]))
                        else:
                            r = real_algo.distribute_power(power, pairs)
                        seen["dist"] = [[i, w] for i, w in r.distribution.items()]
                        seen["remaining"] = r.remaining_power
                        return r

                    manager._distribution_algorithm = mock.MagicMock()  # pylint: disable=protected-access
                    manager._distribution_algorithm.distribute_power = distribute  # pylint: disable=protected-access
                t0 = asyncio.get_running_loop().time()
                await tx.send(Request(power=Power.from_watts(_fl(case["P"])), component_ids=component_ids,
                                      adjust_power=case.get("adjust", True)))
                try:
                    result = await asyncio.wait_for(results_rx.receive(), timeout=3 * TIMEOUT_US / 1e6)
                except asyncio.TimeoutError:
                    result = None
                await _drain(4)
                obs = observation(result, api.calls, seen, round((asyncio.get_running_loop().time() - t0) * 1e6))
                out.append(obs)
            await actor.stop()

    loop = async_solipsism.EventLoop()
    try:
        asyncio.set_event_loop(loop)
        loop.run_until_complete(main())
    finally:
        asyncio.set_event_loop(None)
        loop.close()
    return out


def effective(call: dict, timeout_us: int = TIMEOUT_US) -> str:
    """What the manager can observe of a scripted call (harness-side, independent of the Lean model)."""
    if call["kind"] == "timeout" or call["delay"] >= timeout_us:
        return "timeout"
    return call["kind"]
