"""Generators and REAL-code runners for the battery-pool aggregates (C17 power bounds, C18 SoC / capacity).

Exactness: every number handed to the real code is a `Q` — a `fractions.Fraction` that stays exact when it meets a
float literal of the code (`0.0 + x`, `x * 100.0`, `value * 10.0**0` in `Quantity._new`) instead of decaying to a
float.  The anchored code only uses `+ - * /`, comparisons, `min`/`max`/`sum`, `math.isclose` and `math.isnan`
on these values, so it runs unchanged and its results are exact rationals that must equal the Lean model's.
(`math.isclose` / `is_close_to_zero` convert to float internally; generated values keep a factor >= 1 ± 2^-20 away
from those thresholds, so the conversion cannot flip a comparison.)
"""
from __future__ import annotations

import asyncio
import math
import random
from datetime import datetime, timedelta, timezone
from fractions import Fraction
from typing import Any
from unittest import mock

from .common import rat

NAN = float("nan")
T0 = datetime(2024, 1, 1, tzinfo=timezone.utc)


# --------------------------------------------------------------------------------------- exact numbers
def _conv(x: Any) -> Fraction | None:
    if isinstance(x, Fraction):
        return x
    if isinstance(x, int) and not isinstance(x, bool):
        return Fraction(x)
    if isinstance(x, float):
        if math.isnan(x) or math.isinf(x):
            raise ArithmeticError("non-finite float met exact arithmetic")
        return Fraction(x)
    return None


_Fadd, _Fsub, _Fmul, _Ftruediv = Fraction.__add__, Fraction.__sub__, Fraction.__mul__, Fraction.__truediv__
_Rev = {_Fadd: Fraction.__radd__, _Fsub: Fraction.__rsub__, _Fmul: Fraction.__rmul__, _Ftruediv: Fraction.__rtruediv__}


class Q(Fraction):
    """Exact rational that absorbs ints and finite floats exactly (never returns a float)."""

    def __new__(cls, *a: Any) -> "Q":
        return super().__new__(cls, *a)

    def _bin(self, other: Any, op: Any, rev: bool = False) -> Any:
        if isinstance(other, float):
            if other != other or other in (math.inf, -math.inf):
                raise ArithmeticError("non-finite float met exact arithmetic")
            other = Fraction(other)
        elif not isinstance(other, (Fraction, int)) or isinstance(other, bool):
            return NotImplemented
        r = _Rev[op](self, other) if rev else op(self, other)
        return Q._from_coprime_ints(r.numerator, r.denominator)  # type: ignore[attr-defined]

    def __add__(self, o: Any) -> Any: return self._bin(o, _Fadd)
    def __radd__(self, o: Any) -> Any: return self._bin(o, _Fadd, True)
    def __sub__(self, o: Any) -> Any: return self._bin(o, _Fsub)
    def __rsub__(self, o: Any) -> Any: return self._bin(o, _Fsub, True)
    def __mul__(self, o: Any) -> Any: return self._bin(o, _Fmul)
    def __rmul__(self, o: Any) -> Any: return self._bin(o, _Fmul, True)
    def __truediv__(self, o: Any) -> Any: return self._bin(o, _Ftruediv)
    def __rtruediv__(self, o: Any) -> Any: return self._bin(o, _Ftruediv, True)
    def __neg__(self) -> "Q": return Q._from_coprime_ints(-self.numerator, self.denominator)  # type: ignore[attr-defined]
    def __pos__(self) -> "Q": return self
    def __abs__(self) -> "Q": return Q._from_coprime_ints(abs(self.numerator), self.denominator)  # type: ignore[attr-defined]
    def __hash__(self) -> int: return Fraction.__hash__(self)
    def __eq__(self, o: Any) -> bool: return Fraction.__eq__(self, o)
    def __repr__(self) -> str: return f"Q({self.numerator}/{self.denominator})"


FLOAT_MODE = False  # float pass of the float-vs-exact sweep: the same inputs as plain IEEE doubles


def q(s: str | None) -> Any:
    """Canonical rational string -> Q (or float in the float pass); None -> NaN (a missing field of the message)."""
    if s is None:
        return NAN
    return float(Fraction(s)) if FLOAT_MODE else Q(s)


class float_pass:
    """Context manager: run the real code on floats instead of exact rationals."""

    def __enter__(self) -> None:
        global FLOAT_MODE
        FLOAT_MODE = True

    def __exit__(self, *a: Any) -> None:
        global FLOAT_MODE
        FLOAT_MODE = False


def rel_gap(exact: str | None, approx: str | None) -> float:
    if exact is None or approx is None:
        return 0.0 if exact == approx else math.inf
    e, a = Fraction(exact), Fraction(approx)
    return float(abs(e - a) / max(abs(e), 1))


def out_rat(x: Any) -> str:
    return rat(Fraction(x))


# --------------------------------------------------------------------------------------- event loop (fetchers)
_loop: asyncio.AbstractEventLoop | None = None


def loop() -> asyncio.AbstractEventLoop:
    """One virtual-time loop for the whole run (`async_solipsism`, as in the repo's own tests)."""
    global _loop
    if _loop is None:
        import async_solipsism

        _loop = async_solipsism.EventLoop()
        asyncio.set_event_loop(_loop)
    return _loop


class OneShotReceiver:
    """Stands for the `Receiver` of a component data stream holding exactly the latest message."""

    def __init__(self, msg: Any):
        self.msg = msg

    async def receive(self) -> Any:
        return self.msg


def fetch_metrics(kind: str, cid: int, metric_ids: Any, msg: Any) -> Any:
    """Run the REAL `LatestMetricsFetcher.fetch_next` on one component message (NaN metrics -> missing)."""
    from frequenz.sdk.timeseries.battery_pool._component_metric_fetcher import (
        LatestBatteryMetricsFetcher,
        LatestInverterMetricsFetcher,
    )

    cls = LatestBatteryMetricsFetcher if kind == "bat" else LatestInverterMetricsFetcher
    f = cls.__new__(cls)
    f._component_id = cid  # pylint: disable=protected-access
    f._metrics = metric_ids  # pylint: disable=protected-access
    f._receiver = OneShotReceiver(msg)  # pylint: disable=protected-access
    f._max_waiting_time = 2.0  # pylint: disable=protected-access
    return loop().run_until_complete(f.fetch_next())


# --------------------------------------------------------------------------------------- graph / seams
def build_graph(bat_ids: list[int], inv_ids: list[int], edges: list[tuple[int, int]]) -> Any:
    from frequenz.client.microgrid import Component, ComponentCategory, Connection, InverterType
    from frequenz.sdk.microgrid.component_graph import _MicrogridComponentGraph

    comps = {Component(1, ComponentCategory.GRID), Component(2, ComponentCategory.METER)}
    conns = {Connection(1, 2)}
    for i in inv_ids:
        comps.add(Component(i, ComponentCategory.INVERTER, InverterType.BATTERY))
        conns.add(Connection(2, i))
    for b in bat_ids:
        comps.add(Component(b, ComponentCategory.BATTERY))
    for i, b in edges:
        conns.add(Connection(i, b))
    return _MicrogridComponentGraph(comps, conns)


class FakeCache:
    """`LatestValueCache` of the battery manager: latest message or nothing yet."""

    def __init__(self, msg: Any):
        self.msg = msg

    def has_value(self) -> bool:
        return self.msg is not None

    def get(self) -> Any:
        return self.msg


class FakeTracker:
    """`ComponentPoolStatusTracker.get_working_components`: the working subset of the requested ids."""

    def __init__(self, working: set[int]):
        self.working = working

    def get_working_components(self, ids: Any) -> set[int]:
        return set(ids) & self.working


def battery_msg(b: dict) -> Any:
    from tests.utils.component_data_wrapper import BatteryDataWrapper

    if not b["has"]:
        return None
    ok = b.get("soc_ok", True)
    return BatteryDataWrapper(
        b["id"], T0 + timedelta(seconds=b.get("ts", b["id"])),
        soc=q("50") if ok else NAN, soc_lower_bound=q("10") if ok else NAN, soc_upper_bound=q("90") if ok else NAN,
        capacity=q(b.get("cap", "1000")) if ok else NAN,     # "cap": "0" = a battery that reports no capacity
        power_inclusion_lower_bound=q(b["il"]), power_exclusion_lower_bound=q(b["el"]),
        power_exclusion_upper_bound=q(b["eu"]), power_inclusion_upper_bound=q(b["iu"]),
    )


def inverter_msg(i: dict) -> Any:
    from tests.utils.component_data_wrapper import InverterDataWrapper

    if not i["has"]:
        return None
    return InverterDataWrapper(
        i["id"], T0 + timedelta(seconds=i.get("ts", i["id"])),
        active_power_inclusion_lower_bound=q(i["il"]), active_power_exclusion_lower_bound=q(i["el"]),
        active_power_exclusion_upper_bound=q(i["eu"]), active_power_inclusion_upper_bound=q(i["iu"]),
    )


def bounds_json(il: Any, el: Any, eu: Any, iu: Any) -> dict:
    return {"il": out_rat(il), "el": out_rat(el), "eu": out_rat(eu), "iu": out_rat(iu)}


def run_c17_impl(bats: list[dict], invs: list[dict], edges: list[tuple[int, int]], powers: Any,
                 run_manager: bool = True, derive: bool = False) -> dict:
    """Advertised bounds (real fetchers + real `PowerBoundsCalculator`) and the manager's verdicts
    (real `_get_components_data`, `_get_bounds`, `_get_distribution`) for the SAME component messages.
    `powers`: list of rational strings, or a function (adv, enf) -> list, so that requests can sit on the real bounds;
    the list used is returned under "powers".  `derive`: also return, under "derived", the battery sets as the real
    maps give them (`[(battery ids, inverter ids)]`, in the manager's iteration order) — for topologies where the
    sets are not the generator's own groups."""
    from frequenz.quantities import Power
    from frequenz.sdk.microgrid import connection_manager
    from frequenz.sdk.microgrid._power_distributing._component_managers._battery_manager import (
        BatteryManager,
        _get_battery_inverter_mappings,
    )
    from frequenz.sdk.microgrid._power_distributing._distribution_algorithm import (
        BatteryDistributionAlgorithm,
        DistributionResult,
    )
    from frequenz.sdk.microgrid._power_distributing.request import Request
    from frequenz.sdk.microgrid._power_distributing.result import Error, OutOfBounds
    from frequenz.sdk.timeseries.battery_pool._metric_calculator import PowerBoundsCalculator

    bat_ids = [b["id"] for b in bats]
    graph = build_graph(bat_ids, [i["id"] for i in invs], edges)
    cm = mock.MagicMock()
    cm.component_graph = graph
    msgs_b = {b["id"]: battery_msg(b) for b in bats}
    msgs_i = {i["id"]: inverter_msg(i) for i in invs}
    working = {b["id"] for b in bats if b["working"]}
    with mock.patch.object(connection_manager, "get", return_value=cm):
        calc = PowerBoundsCalculator(frozenset(bat_ids))
        maps = _get_battery_inverter_mappings(set(bat_ids))
    # ---- advertised
    metrics_data = {}
    for cid, mids in calc.battery_metrics.items():
        if msgs_b[cid] is not None:
            metrics_data[cid] = fetch_metrics("bat", cid, mids, msgs_b[cid])
    for cid, mids in calc.inverter_metrics.items():
        if msgs_i[cid] is not None:
            metrics_data[cid] = fetch_metrics("inv", cid, mids, msgs_i[cid])
    sb = calc.calculate(metrics_data, set(working))
    out: dict[str, Any] = {}
    if sb.inclusion_bounds is None or sb.exclusion_bounds is None:
        assert sb.inclusion_bounds is None and sb.exclusion_bounds is None
        out["adv"] = None
    else:
        out["adv"] = bounds_json(sb.inclusion_bounds.lower.as_watts(), sb.exclusion_bounds.lower.as_watts(),
                                 sb.exclusion_bounds.upper.as_watts(), sb.inclusion_bounds.upper.as_watts())
    if not run_manager:
        if callable(powers):
            powers = powers(out["adv"], None)
        out["powers"] = powers
        out["contains"] = [bool(Power.from_watts(q(p)) in sb) for p in powers]
        out.update({"enf": "unmodelled", "req": [], "minp": None, "dist": []})
        return out
    # ---- enforced
    mgr = BatteryManager.__new__(BatteryManager)
    mgr._bat_invs_map = maps["bat_invs"]  # pylint: disable=protected-access
    mgr._inv_bats_map = maps["inv_bats"]  # pylint: disable=protected-access
    mgr._bat_bats_map = maps["bat_bats"]  # pylint: disable=protected-access
    mgr._inv_invs_map = maps["inv_invs"]  # pylint: disable=protected-access
    mgr._battery_caches = {cid: FakeCache(m) for cid, m in msgs_b.items()}  # pylint: disable=protected-access
    mgr._inverter_caches = {cid: FakeCache(m) for cid, m in msgs_i.items()}  # pylint: disable=protected-access
    mgr._component_pool_status_tracker = FakeTracker(working)  # pylint: disable=protected-access
    mgr._distribution_algorithm = BatteryDistributionAlgorithm(1.0)  # pylint: disable=protected-access
    ids = frozenset(bat_ids)
    pairs = mgr._get_components_data(ids)  # pylint: disable=protected-access
    if derive:
        # the two expressions `_get_components_data` uses to form the battery sets, on the same objects
        sets = frozenset(mgr._bat_bats_map[w] for w in  # pylint: disable=protected-access
                         mgr._component_pool_status_tracker.get_working_components(ids))  # pylint: disable=protected-access
        derived = [(list(bs), list(mgr._bat_invs_map[next(iter(bs))])) for bs in sets]  # pylint: disable=protected-access
        seen = [(p.battery.component_id, [i.component_id for i in p.inverter]) for p in pairs]
        # … and the calculator's own (`calculate`): both sides must see the same sets for the model to apply
        calc_sets = {calc._bat_bats_map[b] for b in working}  # pylint: disable=protected-access
        calc_derived = {(frozenset(bs), frozenset(calc._bat_inv_map[next(iter(bs))])) for bs in calc_sets}  # pylint: disable=protected-access
        same = (seen == [(bs[0], is_) for bs, is_ in derived]
                and calc_derived == {(frozenset(bs), frozenset(is_)) for bs, is_ in derived})
        out["derived"] = derived if same else None
    if pairs:
        b = mgr._get_bounds(pairs)  # pylint: disable=protected-access
        out["enf"] = bounds_json(b.inclusion_lower, b.exclusion_lower, b.exclusion_upper, b.inclusion_upper)
        alg = mgr._distribution_algorithm  # pylint: disable=protected-access
        minp: list[str] | None = []
        for supply in (False, True):
            _incl, excl = alg._inclusion_exclusion_bounds(pairs, supply=supply)  # pylint: disable=protected-access
            avail = {p.battery.component_id: q("1") for p in pairs}
            try:
                ratios, _tot = alg._compute_battery_availability_ratio(pairs, avail, excl)  # pylint: disable=protected-access
            except ValueError:
                # "All batteries have capacity 0.": the algorithm refuses to form group ratios (and min powers) when
                # the participating sets have no capacity at all; anything else is the caller's business
                if sum(p.battery.capacity for p in pairs) != 0:
                    raise
                minp = None
                out["total_capacity_zero"] = True
                break
            minp.append(out_rat(sum(r.min_power for r in ratios)))
        out["minp"] = minp
    else:
        out["enf"] = None
        out["minp"] = None
    if callable(powers):
        powers = powers(out["adv"], out["enf"])
    out["powers"] = powers
    out["contains"] = [bool(Power.from_watts(q(p)) in sb) for p in powers]
    def classify(res: Any) -> str:
        if res is None or isinstance(res, DistributionResult):
            return "ok"
        if isinstance(res, OutOfBounds):
            return "oob"
        if isinstance(res, Error):
            return "error"
        return type(res).__name__

    def full_path(p: str, adjust: bool) -> str:
        request = Request(power=Power.from_watts(q(p)), component_ids=ids, adjust_power=adjust)
        coro = mgr._get_distribution(request)  # pylint: disable=protected-access
        try:
            coro.send(None)
        except StopIteration as stop:
            return classify(stop.value)
        raise RuntimeError("_get_distribution suspended")

    req = []
    for p in powers:
        row = []
        for adjust in (True, False):
            if pairs:  # the data of the battery sets is fetched once; the verdict is `_check_request`'s
                request = Request(power=Power.from_watts(q(p)), component_ids=ids, adjust_power=adjust)
                row.append(classify(mgr._check_request(request, pairs)))  # pylint: disable=protected-access
            else:
                row.append(full_path(p, adjust))
        req.append(row)
    # the whole `_get_distribution` (data fetch, `_check_request`, distribution algorithm) for a few of the powers
    out["dist"] = [full_path(p, k % 2 == 0) for k, p in enumerate(powers) if k % 5 == 0]
    out["req"] = req
    return out


# --------------------------------------------------------------------------------------- C17 generators
def group_edges(groups: list[dict]) -> list[tuple[int, int]]:
    return [(i["id"], b["id"]) for g in groups for i in g["invs"] for b in g["bats"]]


def flat(groups: list[dict]) -> tuple[list[dict], list[dict]]:
    return [b for g in groups for b in g["bats"]], [i for g in groups for i in g["invs"]]


STEP = [Fraction(0), Fraction(1, 2), Fraction(1), Fraction(5), Fraction(10), Fraction(25), Fraction(50), Fraction(100),
        Fraction(250), Fraction(1000)]


def gen_component_bounds(rng: random.Random, consistent: bool) -> dict:
    """incl_lower <= excl_lower <= 0 <= excl_upper <= incl_upper (consistent), or anything from the lattice."""
    if consistent:
        eu = rng.choice(STEP[:7]) if rng.random() < 0.8 else Fraction(0)
        el = -rng.choice(STEP[:7]) if rng.random() < 0.8 else Fraction(0)
        iu = eu + rng.choice(STEP)
        il = el - rng.choice(STEP)
    else:
        vals = [rng.choice(STEP) * rng.choice((-1, 1)) for _ in range(4)]
        il, el, eu, iu = vals
    return {"il": rat(il), "el": rat(el), "eu": rat(eu), "iu": rat(iu)}


def gen_c17_groups(rng: random.Random, consistent: bool, incomplete: float) -> list[dict]:
    """1-4 battery sets of 1-3 batteries x 1-3 inverters (fully connected inside a set).
    `incomplete` = probability per case of damaging some components (missing message, NaN metric, not working)."""
    groups = []
    nb = ni = 0
    damage = rng.random() < incomplete
    for _ in range(rng.choice((1, 1, 2, 2, 3, 4))):
        bats, invs = [], []
        for _ in range(rng.choice((1, 1, 2, 3))):
            nb += 1
            b = {"id": 10 + nb, "working": True, "has": True, "soc_ok": True, **gen_component_bounds(rng, consistent)}
            bats.append(b)
        for _ in range(rng.choice((1, 1, 2, 3))):
            ni += 1
            invs.append({"id": 100 + ni, "has": True, **gen_component_bounds(rng, consistent)})
        groups.append({"bats": bats, "invs": invs})
    r_cap = rng.random()
    if r_cap < 0.14:  # batteries reporting capacity == 0 (complete, NaN-free data; the aggregated SoC of a set is undefined)
        if r_cap < 0.04:                       # one battery
            rng.choice([b for g in groups for b in g["bats"]])["cap"] = "0"
        elif r_cap < 0.11:                     # every battery of one set (the others normal)
            for b in rng.choice(groups)["bats"]:
                b["cap"] = "0"
        else:                                  # every battery of every set
            for g in groups:
                for b in g["bats"]:
                    b["cap"] = "0"
    if rng.random() < 0.35:  # some batteries not working (whole sets drop out only when none of theirs works)
        for g in groups:
            for b in g["bats"]:
                if rng.random() < 0.4:
                    b["working"] = False
    if damage:
        comps = [c for g in groups for c in g["bats"] + g["invs"]]
        for c in rng.sample(comps, k=min(len(comps), rng.choice((1, 1, 2, 3)))):
            kind = rng.random()
            if kind < 0.25:
                c["has"] = False
            elif kind < 0.4 and "soc_ok" in c:
                c["soc_ok"] = False
            else:
                for k in rng.sample(["il", "el", "eu", "iu"], k=rng.choice((1, 1, 2, 4))):
                    c[k] = None
    return groups


def is_complete(groups: list[dict]) -> bool:
    return all(c["has"] and c.get("soc_ok", True) and all(c[k] is not None for k in ("il", "el", "eu", "iu"))
               for g in groups for c in g["bats"] + g["invs"])


def is_consistent(groups: list[dict]) -> bool:
    def ok(c: dict) -> bool:
        il, el, eu, iu = (Fraction(c[k]) for k in ("il", "el", "eu", "iu"))
        return il <= el <= 0 <= eu <= iu
    return all(ok(c) for g in groups for c in g["bats"] + g["invs"])


def manager_unmodelled(groups: list[dict]) -> bool:
    """A NaN exclusion bound survives the manager's crucial-metric check (NaN arithmetic: outside the model)."""
    for g in groups:
        if not any(b["working"] for b in g["bats"]):
            continue
        comps = g["bats"] + g["invs"]
        if not all(c["has"] for c in comps):
            continue
        if any(c["il"] is None or c["iu"] is None or not c.get("soc_ok", True) for c in comps):
            continue
        if any(c["el"] is None or c["eu"] is None for c in comps):
            return True
    return False


EPS = [Fraction(0), Fraction(1, 2), Fraction(1), Fraction(1, 1024)]


def boundary_powers(rng: random.Random, anchors: list[Fraction], k: int) -> list[str]:
    """Powers on / just inside / just outside every anchor (advertised and enforced bounds), plus 0 and tiny values."""
    cands: list[Fraction] = []
    for a in anchors:
        for e in EPS:
            cands += [a + e, a - e]
    cands += [Fraction(0), Fraction(1, 2**31), -Fraction(1, 2**31), Fraction(1, 2**29), -Fraction(1, 2**29)]
    uniq = sorted(set(cands))
    if len(uniq) > k:
        keep = set(rng.sample(uniq, k))
        # always keep the anchors themselves
        keep |= set(anchors)
        uniq = sorted(keep)
    return [rat(x) for x in uniq]


# ======================================================================================= C18: pool SoC / capacity
_sou_env_cache: dict[tuple[int, ...], Any] = {}


def _sou_env(bat_ids: tuple[int, ...]) -> Any:
    """Real calculators + the battery->inverter map of `SendOnUpdate` for a pool of `bat_ids` (one inverter each)."""
    if bat_ids not in _sou_env_cache:
        from frequenz.sdk.microgrid import connection_manager
        from frequenz.sdk.microgrid._power_distributing._component_managers._battery_manager import (
            _get_battery_inverter_mappings,
        )

        graph = build_graph(list(bat_ids), [1000 + b for b in bat_ids], [(1000 + b, b) for b in bat_ids])
        cm = mock.MagicMock()
        cm.component_graph = graph
        with mock.patch.object(connection_manager, "get", return_value=cm):
            inv_map = _get_battery_inverter_mappings(set(bat_ids), inv_bats=False, bat_bats=False, inv_invs=False)["bat_invs"]
        _sou_env_cache[bat_ids] = inv_map
    return _sou_env_cache[bat_ids]


def make_send_on_update(calc: Any, working: set[int], inv_map: Any) -> Any:
    """A `SendOnUpdate` without its background tasks: the cache, the working set and `update_working_batteries`
    are the real object's; data arrival is driven by the harness through the real fetcher."""
    from frequenz.sdk.timeseries.battery_pool._methods import SendOnUpdate

    sou = SendOnUpdate.__new__(SendOnUpdate)
    sou._metric_calculator = calc  # pylint: disable=protected-access
    sou._bat_inv_map = inv_map  # pylint: disable=protected-access
    sou._working_batteries = set(working).intersection(calc.batteries)  # pylint: disable=protected-access
    sou._cached_metrics = {}  # pylint: disable=protected-access
    sou._update_event = asyncio.Event()  # pylint: disable=protected-access
    return sou


class SilentReceiver:
    """A data stream on which nothing arrives (the fetcher's `wait_for` times out on the virtual clock)."""

    async def receive(self) -> Any:
        await asyncio.Event().wait()


def soc_msg(op: dict) -> Any:
    from tests.utils.component_data_wrapper import BatteryDataWrapper

    return BatteryDataWrapper(
        op["id"], T0 + timedelta(seconds=op["ts"]),
        capacity=q(op["capacity"]), soc_lower_bound=q(op["lo"]), soc_upper_bound=q(op["hi"]), soc=q(op["soc"]),
    )


def sample_json(sample: Any, unit: str) -> Any:
    if sample.value is None:
        return None
    v = sample.value.as_percent() if unit == "pct" else sample.value.as_watt_hours()
    dt = sample.timestamp - T0
    assert dt.microseconds == 0
    return {"ts": dt.days * 86400 + dt.seconds, "v": out_rat(v)}


def run_c18_impl(script: dict) -> dict:
    """Drive the real fetcher, the real `SendOnUpdate` cache / working-set code and the real calculators."""
    from frequenz.sdk.timeseries.battery_pool._component_metric_fetcher import LatestBatteryMetricsFetcher
    from frequenz.sdk.timeseries.battery_pool._metric_calculator import CapacityCalculator, SoCCalculator

    bat_ids = tuple(script["batteries"])
    inv_map = _sou_env(bat_ids)
    pools = [make_send_on_update(SoCCalculator(frozenset(bat_ids)), set(script["working"]), inv_map),
             make_send_on_update(CapacityCalculator(frozenset(bat_ids)), set(script["working"]), inv_map)]
    outs = []
    for op in script["ops"]:
        kind = op["op"]
        if kind == "data":
            msg = soc_msg(op)
            for sou in pools:
                mids = sou._metric_calculator.battery_metrics[op["id"]]  # pylint: disable=protected-access
                sou._cached_metrics[op["id"]] = fetch_metrics("bat", op["id"], mids, msg)  # pylint: disable=protected-access
        elif kind == "silent":
            for sou in pools:
                f = LatestBatteryMetricsFetcher.__new__(LatestBatteryMetricsFetcher)
                f._component_id = op["id"]  # pylint: disable=protected-access
                f._metrics = sou._metric_calculator.battery_metrics[op["id"]]  # pylint: disable=protected-access
                f._receiver = SilentReceiver()  # pylint: disable=protected-access
                f._max_waiting_time = 2.0  # pylint: disable=protected-access
                sou._cached_metrics[op["id"]] = loop().run_until_complete(f.fetch_next())  # pylint: disable=protected-access
        elif kind == "working":
            for sou in pools:
                sou.update_working_batteries(set(op["ids"]))
        elif kind == "calc":
            res = []
            for sou, unit in zip(pools, ("pct", "wh")):
                try:
                    res.append(sample_json(
                        sou._metric_calculator.calculate(sou._cached_metrics, sou._working_batteries), unit))  # pylint: disable=protected-access
                except Exception as e:  # pylint: disable=broad-except  # a crash of the real code is an observation
                    res.append(f"raised {type(e).__name__}")
            outs.append({"soc": res[0], "cap": res[1]})
        else:
            raise ValueError(kind)
    return {"out": outs}


# ---- generators
CAPS = [Fraction(0), Fraction(1, 2**40), Fraction(1, 2**20), Fraction(1, 2), Fraction(1), Fraction(100), Fraction(1000),
        Fraction(5000), Fraction(2**20)]
LIMS = [Fraction(0), Fraction(10), Fraction(20), Fraction(50), Fraction(80), Fraction(90), Fraction(100)]


def gen_battery_data(rng: random.Random, in_domain: bool) -> dict:
    """capacity >= 0, lo <= hi (equal with probability ~0.15), SoC on / around the limits; values dyadic or small."""
    cap = rng.choice(CAPS) if rng.random() < 0.85 else Fraction(rng.randint(1, 4000))
    lo = rng.choice(LIMS)
    hi = rng.choice([x for x in LIMS if x >= lo])
    r = rng.random()
    if r < 0.15:
        hi = lo
    elif r < 0.22:
        hi = lo + Fraction(1, 2**rng.choice((10, 20, 45)))  # distinct but close / indistinguishable to `math.isclose`
    if not in_domain:
        k = rng.random()
        if k < 0.4:
            lo, hi = hi + rng.choice((1, 10)), lo  # limits the wrong way round
        elif k < 0.7:
            cap = -cap - 1
    span = hi - lo
    soc = rng.choice([lo, hi, lo - 5, hi + 5, lo + span / 2, lo + span / 4, lo + Fraction(1, 1024), hi - Fraction(1, 1024),
                      Fraction(0), Fraction(100), lo + span * Fraction(rng.randint(0, 64), 64), hi - span / 2**34])
    return {"capacity": rat(cap), "lo": rat(lo), "hi": rat(hi), "soc": rat(soc)}


def gen_c18_static(rng: random.Random, in_domain: bool = True) -> dict:
    """A pool snapshot: 1-5 batteries, latest message each (possibly none / with NaN metrics), a working subset."""
    n = rng.choice((1, 1, 2, 2, 3, 3, 4, 5))
    ids = [11 + k for k in range(n)]
    bats = []
    for b in ids:
        d = {"id": b, "ts": rng.randint(1, 50), "has": rng.random() < 0.9, **gen_battery_data(rng, in_domain)}
        if rng.random() < 0.15:
            for k in rng.sample(["capacity", "lo", "hi", "soc"], k=rng.choice((1, 1, 2))):
                d[k] = None
        bats.append(d)
    if rng.random() < 0.25:  # a pool dominated by tiny capacities: totals around the 1e-9 tolerance
        for d in bats:
            if d["capacity"] is not None:
                d["capacity"] = rat(rng.choice(CAPS[:3]))
    working = [b for b in ids if rng.random() < 0.85]
    return {"bats": bats, "working": working}


def static_script(snap: dict) -> dict:
    ops = [{"op": "data", **{k: d[k] for k in ("id", "ts", "capacity", "lo", "hi", "soc")}} for d in snap["bats"] if d["has"]]
    ids = [d["id"] for d in snap["bats"]]
    return {"batteries": ids, "working": list(snap["working"]), "ops": ops + [{"op": "calc"}]}


def gen_c18_script(rng: random.Random) -> dict:
    """History of a pool: messages, fetch time-outs and working-set updates interleaved with calculations."""
    n = rng.choice((1, 2, 2, 3, 3, 4))
    ids = [11 + k for k in range(n)]
    working = [b for b in ids if rng.random() < 0.8]
    ops: list[dict] = []
    t = 0
    for _ in range(rng.randint(3, 14)):
        t += rng.randint(0, 3)
        r = rng.random()
        if r < 0.5:
            d = gen_battery_data(rng, rng.random() < 0.95)
            if rng.random() < 0.12:
                d[rng.choice(["capacity", "lo", "hi", "soc"])] = None
            ops.append({"op": "data", "id": rng.choice(ids), "ts": t, **d})
        elif r < 0.58:
            ops.append({"op": "silent", "id": rng.choice(ids), "ts": t})
        elif r < 0.8:
            pool = ids + [99]  # 99: an id outside the calculator's battery set
            ops.append({"op": "working", "ids": sorted(rng.sample(pool, k=rng.randint(0, len(pool))))})
        else:
            ops.append({"op": "calc"})
    ops.append({"op": "calc"})
    return {"batteries": ids, "working": working, "ops": ops}


# ---- full stack: the real `SendOnUpdate` with its own tasks, fed through the mocked microgrid API channels
def run_c18_fullstack(snap: dict, new_working: list[int]) -> list[dict]:
    """Two real `SendOnUpdate` objects (SoC, capacity) with their `_update_and_notify` / `_send_on_update` tasks on
    the virtual-time loop; every battery of `snap` with a message sends it once through the (mock) API channel; the
    streamed results are read, then the working set is updated and they are read again.
    Returns the two readings in the format of `run_c18_impl`'s calc outputs."""
    from frequenz.client.microgrid import Component, ComponentCategory, Connection, InverterType
    from frequenz.sdk.timeseries.battery_pool._methods import SendOnUpdate
    from frequenz.sdk.timeseries.battery_pool._metric_calculator import CapacityCalculator, SoCCalculator
    from tests.utils.mock_microgrid_client import MockMicrogridClient

    ids = [d["id"] for d in snap["bats"]]
    comps = {Component(1, ComponentCategory.GRID), Component(2, ComponentCategory.METER)}
    conns = {Connection(1, 2)}
    for b in ids:
        comps.add(Component(1000 + b, ComponentCategory.INVERTER, InverterType.BATTERY))
        comps.add(Component(b, ComponentCategory.BATTERY))
        conns.add(Connection(2, 1000 + b))
        conns.add(Connection(1000 + b, b))
    mg = MockMicrogridClient(comps, conns)

    async def read(sou: Any, unit: str) -> Any:
        rx = sou.new_receiver()  # `resend_latest`: a new receiver starts with the latest streamed result
        try:
            sample = await asyncio.wait_for(rx.receive(), 0.01)
        except asyncio.TimeoutError:
            return "nothing-streamed"
        return sample_json(sample, unit)

    async def scenario() -> list[dict]:
        pools = [SendOnUpdate(set(snap["working"]), SoCCalculator(frozenset(ids)), timedelta(seconds=0.1)),
                 SendOnUpdate(set(snap["working"]), CapacityCalculator(frozenset(ids)), timedelta(seconds=0.1))]
        try:
            await asyncio.sleep(1.0)
            for d in snap["bats"]:
                if d["has"]:
                    await mg.send(soc_msg({"id": d["id"], "ts": d["ts"], **{k: d[k] for k in ("capacity", "lo", "hi", "soc")}}))
            await asyncio.sleep(1.5)  # t = 2.5 s: after WAIT_FOR_COMPONENT_DATA_SEC, before the fetchers' 2 s time-out
            first = {"soc": await read(pools[0], "pct"), "cap": await read(pools[1], "wh")}
            for sou in pools:
                sou.update_working_batteries(set(new_working))
            await asyncio.sleep(0.3)
            second = {"soc": await read(pools[0], "pct"), "cap": await read(pools[1], "wh")}
            return [first, second]
        finally:
            for sou in pools:
                await sou.stop()

    with mock.patch("frequenz.sdk.microgrid.connection_manager._CONNECTION_MANAGER", mg.mock_microgrid):
        return loop().run_until_complete(scenario())


def run_c18_stream(hist: dict) -> list[dict]:
    """The pool SoC / capacity STREAMED by two real `SendOnUpdate` objects (SoCCalculator, CapacityCalculator; their own
    asyncio tasks, virtual clock, mocked API channels) along a HISTORY: `hist` = {"batteries": ids, "working": ids,
    "steps": [[battery data …] …], "read": [sample indices]}.  At every sample each battery sends its current message
    (stamped 100·(k+1) + id % 50 s); at the samples listed in "read" (all when absent), after a few update intervals,
    the latest streamed values are read.  Returns one {"soc", "cap"} reading per read sample (format of `run_c18_impl`)."""
    from frequenz.client.microgrid import Component, ComponentCategory, Connection, InverterType
    from frequenz.sdk.timeseries.battery_pool._methods import SendOnUpdate
    from frequenz.sdk.timeseries.battery_pool._metric_calculator import CapacityCalculator, SoCCalculator
    from tests.utils.mock_microgrid_client import MockMicrogridClient

    ids = list(hist["batteries"])
    comps = {Component(1, ComponentCategory.GRID), Component(2, ComponentCategory.METER)}
    conns = {Connection(1, 2)}
    for b in ids:
        comps.add(Component(1000 + b, ComponentCategory.INVERTER, InverterType.BATTERY))
        comps.add(Component(b, ComponentCategory.BATTERY))
        conns.add(Connection(2, 1000 + b))
        conns.add(Connection(1000 + b, b))
    mg = MockMicrogridClient(comps, conns)
    reads = set(hist.get("read", range(len(hist["steps"]))))

    async def read(sou: Any, unit: str) -> Any:
        rx = sou.new_receiver()
        try:
            sample = await asyncio.wait_for(rx.receive(), 0.01)
        except asyncio.TimeoutError:
            return "nothing-streamed"
        return sample_json(sample, unit)

    async def scenario() -> list[dict]:
        pools = [SendOnUpdate(set(hist["working"]), SoCCalculator(frozenset(ids)), timedelta(seconds=0.1)),
                 SendOnUpdate(set(hist["working"]), CapacityCalculator(frozenset(ids)), timedelta(seconds=0.1))]
        out: list[dict] = []
        try:
            await asyncio.sleep(1.0)
            for k, step in enumerate(hist["steps"]):
                for d in step:
                    await mg.send(soc_msg({"id": d["id"], "ts": 100 * (k + 1) + d["id"] % 50,
                                           **{x: d[x] for x in ("capacity", "lo", "hi", "soc")}}))
                await asyncio.sleep(1.5 if k == 0 else 0.4)   # < the fetchers' 2 s time-out
                if k in reads:
                    out.append({"soc": await read(pools[0], "pct"), "cap": await read(pools[1], "wh")})
            return out
        finally:
            for sou in pools:
                await sou.stop()

    with mock.patch("frequenz.sdk.microgrid.connection_manager._CONNECTION_MANAGER", mg.mock_microgrid):
        return loop().run_until_complete(scenario())


TINY_REL = [Fraction(1, 10**7), Fraction(1, 10**8), Fraction(1, 10**10), Fraction(1, 10**12), Fraction(1, 2**52)]


def gen_c18_history(rng: random.Random, long: bool = False) -> dict:
    """1-3 working batteries with complete in-domain data (capacity 100-5000, distinct limits, SoC inside); ONE metric of
    one battery (mostly its SoC) changes by a tiny relative amount per sample: 1e-7 … 1e-12 or 1 ulp in short histories
    of 3-7 samples, 5e-7 / 1e-7 / 1e-8 per sample over 200-600 samples in long ones (each step below any tolerance, the
    total not); sometimes a second battery jumps once.  Long histories are read every 100th sample and at the end."""
    import copy

    n_b = rng.choice([1, 2]) if long else rng.choice([1, 2, 2, 3])
    bats = []
    for k in range(n_b):
        lo, hi = rng.choice([(0, 100), (10, 90), (20, 80), (5, 95)])
        soc = rng.choice([lo + (hi - lo) // 2, lo + 7, hi - 9, 50])
        bats.append({"id": 11 + k, "capacity": rat(rng.choice([100, 1000, 1000, 5000, 2500])), "lo": rat(lo), "hi": rat(hi),
                     "soc": rat(soc)})
    key = rng.choice(["soc", "soc", "soc", "capacity", "hi", "lo"])
    ti = rng.randrange(n_b)
    if key == "lo" and Fraction(bats[ti]["lo"]) == 0:
        key = "soc"
    eps = rng.choice([Fraction(1, 2 * 10**6), Fraction(1, 10**7), Fraction(1, 10**8)]) if long else rng.choice(TINY_REL)
    up = rng.random() < 0.5
    n = rng.choice([200, 400, 600]) if long else rng.randint(3, 7)
    steps = [bats]
    jump_at = rng.randint(1, n - 1) if (n_b > 1 and rng.random() < 0.3) else None
    for k in range(1, n):
        nxt = copy.deepcopy(steps[-1])
        d = nxt[ti]
        # (linear in the sample index: the same relative step per sample, small denominators over long histories)
        v = Fraction(bats[ti][key]) * ((1 + k * eps) if up else (1 - k * eps))
        lo, hi = Fraction(d["lo"]), Fraction(d["hi"])
        ok = {"soc": lo <= v <= hi, "capacity": v > 0, "hi": v > max(lo, Fraction(d["soc"])) and v <= 100,
              "lo": 0 <= v < min(hi, Fraction(d["soc"]))}[key]
        if ok:
            d[key] = rat(v)
        if jump_at == k:
            o = nxt[(ti + 1) % n_b]
            o["soc"] = rat((Fraction(o["lo"]) + Fraction(o["hi"])) / 2 + 3)
        steps.append(nxt)
    hist = {"batteries": [b["id"] for b in bats], "working": [b["id"] for b in bats], "steps": steps}
    if long:
        hist["read"] = sorted(set(range(0, n, 100)) | {n - 1})
    return hist


def fullstack_script(snap: dict, new_working: list[int]) -> dict:
    """The same scenario as an operation script for the synchronous runner and the Lean driver."""
    s = static_script(snap)
    s["ops"] += [{"op": "working", "ids": list(new_working)}, {"op": "calc"}]
    return s


def run_c17_fullstack_adv(groups: list[dict]) -> Any:
    """The bounds actually STREAMED by a real `SendOnUpdate(PowerBoundsCalculator)` (its own asyncio tasks, virtual
    clock, mocked API channels) after every component that has a message sent it once."""
    from frequenz.client.microgrid import Component, ComponentCategory, Connection, InverterType
    from frequenz.sdk.timeseries.battery_pool._methods import SendOnUpdate
    from frequenz.sdk.timeseries.battery_pool._metric_calculator import PowerBoundsCalculator
    from tests.utils.mock_microgrid_client import MockMicrogridClient

    bats, invs = flat(groups)
    comps = {Component(1, ComponentCategory.GRID), Component(2, ComponentCategory.METER)}
    conns = {Connection(1, 2)}
    for i in invs:
        comps.add(Component(i["id"], ComponentCategory.INVERTER, InverterType.BATTERY))
        conns.add(Connection(2, i["id"]))
    for b in bats:
        comps.add(Component(b["id"], ComponentCategory.BATTERY))
    for i, b in group_edges(groups):
        conns.add(Connection(i, b))
    mg = MockMicrogridClient(comps, conns)
    working = {b["id"] for b in bats if b["working"]}

    async def scenario() -> Any:
        sou = SendOnUpdate(working, PowerBoundsCalculator(frozenset(b["id"] for b in bats)), timedelta(seconds=0.1))
        try:
            await asyncio.sleep(1.0)
            for c in bats:
                if c["has"]:
                    await mg.send(battery_msg(c))
            for c in invs:
                if c["has"]:
                    await mg.send(inverter_msg(c))
            await asyncio.sleep(1.5)
            rx = sou.new_receiver()
            try:
                sb = await asyncio.wait_for(rx.receive(), 0.01)
            except asyncio.TimeoutError:
                return "nothing-streamed"
            if sb.inclusion_bounds is None or sb.exclusion_bounds is None:
                return None
            return bounds_json(sb.inclusion_bounds.lower.as_watts(), sb.exclusion_bounds.lower.as_watts(),
                               sb.exclusion_bounds.upper.as_watts(), sb.inclusion_bounds.upper.as_watts())
        finally:
            await sou.stop()

    with mock.patch("frequenz.sdk.microgrid.connection_manager._CONNECTION_MANAGER", mg.mock_microgrid):
        return loop().run_until_complete(scenario())


def stream_ts(c: dict, k: int) -> int:
    """Timestamp (seconds after T0) of the message component `c` sends at sample k: its own "ts" (histories with
    repeated / equal / decreasing timestamps) or a fresh one."""
    return c["ts"] if "ts" in c else 100 * (k + 1) + c["id"] % 50


def stream_wait(groups: list[dict], k: int) -> Fraction:
    """Virtual seconds between the messages of sample k and the reading: "wait" of the first battery set, else 1.5 / 0.4."""
    if groups and "wait" in groups[0]:
        return Fraction(groups[0]["wait"])
    return Fraction(3, 2) if k == 0 else Fraction(2, 5)


def stream_silence(steps: list[list[dict]], k: int) -> Fraction:
    """Input only: the longest time, at the reading of sample k, since a component last sent a message ("mute" = it
    sends nothing at that sample).  From 2 s on (MAX_BATTERY_DATA_AGE_SEC) the pool's fetcher counts it as silent."""
    t = Fraction(0)
    last: dict[int, Fraction] = {}
    for j in range(k + 1):
        for c in [x for part in flat(steps[j]) for x in part]:
            if c["has"] and not c.get("mute"):
                last[c["id"]] = t
        t += stream_wait(steps[j], j)
    return max((t - v for v in last.values()), default=Fraction(0))


def run_c17_stream(steps: list[list[dict]]) -> list[Any]:
    """The bounds STREAMED by one real `SendOnUpdate(PowerBoundsCalculator)` (its own asyncio tasks, virtual clock,
    mocked API channels — what `BatteryPool._system_power_bounds` is made of) along a HISTORY of component data:
    `steps[k]` = the battery sets with the data every component reports at sample k (same topology in every step).
    At every sample each component that is not muted sends its current message (changed or not; stamped with the
    sample's fresh timestamp, or with its own "ts" — equal to / older than its previous one); after the step's wait
    has elapsed the latest streamed value is read.  Returns one reading per step (`bounds_json`,
    `None` = bounds absent, "nothing-streamed")."""
    from frequenz.client.microgrid import Component, ComponentCategory, Connection, InverterType
    from frequenz.sdk.timeseries.battery_pool._methods import SendOnUpdate
    from frequenz.sdk.timeseries.battery_pool._metric_calculator import PowerBoundsCalculator
    from tests.utils.mock_microgrid_client import MockMicrogridClient

    groups = steps[0]
    bats, invs = flat(groups)
    comps = {Component(1, ComponentCategory.GRID), Component(2, ComponentCategory.METER)}
    conns = {Connection(1, 2)}
    for i in invs:
        comps.add(Component(i["id"], ComponentCategory.INVERTER, InverterType.BATTERY))
        conns.add(Connection(2, i["id"]))
    for b in bats:
        comps.add(Component(b["id"], ComponentCategory.BATTERY))
    for i, b in group_edges(groups):
        conns.add(Connection(i, b))
    mg = MockMicrogridClient(comps, conns)
    working = {b["id"] for b in bats if b["working"]}

    async def scenario() -> list[Any]:
        sou = SendOnUpdate(working, PowerBoundsCalculator(frozenset(b["id"] for b in bats)), timedelta(seconds=0.1))
        readings: list[Any] = []
        try:
            await asyncio.sleep(1.0)
            for k, gs in enumerate(steps):
                bs, is_ = flat(gs)
                for c in bs:
                    if c["has"] and not c.get("mute"):
                        await mg.send(battery_msg({**c, "ts": stream_ts(c, k)}))
                for c in is_:
                    if c["has"] and not c.get("mute"):
                        await mg.send(inverter_msg({**c, "ts": stream_ts(c, k)}))
                # first sample: wait for WAIT_FOR_COMPONENT_DATA_SEC; later ones: a few update intervals (< the
                # fetchers' 2 s time-out, so no component counts as silent) unless the step asks for a longer pause
                await asyncio.sleep(float(stream_wait(gs, k)))
                rx = sou.new_receiver()  # `resend_latest`: starts with the latest streamed value
                try:
                    sb = await asyncio.wait_for(rx.receive(), 0.01)
                except asyncio.TimeoutError:
                    readings.append("nothing-streamed")
                    continue
                if sb.inclusion_bounds is None or sb.exclusion_bounds is None:
                    readings.append(None)
                else:
                    readings.append(bounds_json(sb.inclusion_bounds.lower.as_watts(), sb.exclusion_bounds.lower.as_watts(),
                                                sb.exclusion_bounds.upper.as_watts(), sb.inclusion_bounds.upper.as_watts()))
            return readings
        finally:
            await sou.stop()

    with mock.patch("frequenz.sdk.microgrid.connection_manager._CONNECTION_MANAGER", mg.mock_microgrid):
        return loop().run_until_complete(scenario())

