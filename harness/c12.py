"""C12 — generated microgrid power formulas balance for every valid component topology.

For every generated component tree the REAL generators are run (with `connection_manager.get()`
patched to return a graph built by `_MicrogridComponentGraph`), their engines are reduced to signed
multisets of component ids (+ nones_are_zeros flags + fallback formulas) and

  oracle (independent of the Lean model): the engines' postfix steps are evaluated with the real
      operator steps on readings derived from a random assignment of device powers and unmetered
      loads (a meter reads the sum below it plus its load) and compared with the true totals
      recomputed from the assignment: grid, consumer, producer, battery, pv (both code paths), ev, chp,
      grid = consumer + producer + battery + ev, every fallback formula = its primary, and the
      pool formulas for sub-pools;
  correspondence: the same trees through the Lean driver; signed multisets, flags, fallbacks,
      errors and the regime predicates must be equal.

Two further streams: (a) chained DC wiring — batteries shared between battery inverters with the same
predecessor (battery/inverter DAGs; the model lists a shared battery id under several inverters); (b) histories
on ONE long-lived `_MicrogridComponentGraph`: a sequence of topologies over one id space in which meters change
role, installed with `refresh_from`, all formulas generated after each refresh.  Oracle for (b): the formulas
generated on the refreshed object equal those of a fresh graph of the same topology AND balance; the model side
is `C12_history_free` (generation after any history = generation on the last topology), so the refreshed
object's output is compared with the model of the last topology.
"""
from __future__ import annotations

import json
import pathlib
from fractions import Fraction

from . import graph_gen as g
from .common import Ctx, python_flags, rat

RULE = ("component trees (grid root; meters nested to depth <= 4; battery inverters with 1-2 batteries, PV inverters, "
        "EV chargers, CHPs) with random distinct ids, 1-10 nodes, ~35% with a single grid successor, ~45% of inner "
        "meters dedicated to one device type; one random assignment of device powers / unmetered loads and random "
        "battery/PV/EV sub-pools per tree; thorough adds every tree shape with <= 6 nodes; a malformed stream "
        "(unmetered CHPs, inverters without batteries, partial battery selections) is compared with the model only; "
        "non-trivial = at least one meter with successors and two device kinds; distinct by canonical JSON hash; "
        "plus ~10% trees with a DC bus (2-4 sibling battery inverters sharing batteries in a chain) and ~12% histories "
        "of 2-3 topologies on one graph object (devices added/removed/exchanged below a meter, grid successors "
        "added/removed; refresh_from between them; formulas generated after every refresh)")

CLAUSES = ("grid", "consumer", "producer", "battery", "pv_dfs", "pv", "ev", "chp")


def totals(case: dict, power: dict[int, Fraction], load: dict[int, Fraction]) -> dict[str, Fraction]:
    def s(kind: str) -> Fraction:
        return sum((power[i] for i in g.ids_of(case, kind)), Fraction(0))

    t = {"battery": s("batInv"), "pv": s("pvInv"), "ev": s("ev"), "chp": s("chp"),
         "consumer": sum(load.values(), Fraction(0))}
    t["pv_dfs"] = t["pv"]
    t["producer"] = t["pv"] + t["chp"]
    t["grid"] = t["consumer"] + t["producer"] + t["battery"] + t["ev"]
    return t


def oracle(ctx: Ctx, case: dict, out: dict, engines: dict) -> None:
    power = {int(k): Fraction(v) for k, v in case["power"].items()}
    load = {int(k): Fraction(v) for k, v in case["load"].items()}
    env = g.readings(case, power, load)
    want = totals(case, power, load)
    reg_cons = g.regime_consumer(case)
    got: dict[str, Fraction | None] = {}
    for name in CLAUSES:
        if name not in engines:
            ctx.violation(f"{name}: no formula generated", strip(case), out[name])
            continue
        got[name] = g.evaluate(engines[name], env)
        if got[name] != want[name]:
            ctx.violation(f"{name} formula != true total", strip(case),
                          {"formula": out[name], "value": rat(got[name]), "true": rat(want[name])},
                          regime=reg_cons if name == "consumer" else None)
    if all(got.get(k) is not None for k in ("grid", "consumer", "producer", "battery", "ev")):
        rhs = got["consumer"] + got["producer"] + got["battery"] + got["ev"]  # type: ignore[operator]
        if got["grid"] != rhs:
            ctx.violation("grid != consumer + producer + battery + ev", strip(case),
                          {"grid": rat(got["grid"]), "sum": rat(rhs)}, regime=reg_cons)
    # fallback formulas measure what their primary measures
    for name, eng in engines.items():
        sub_regime = None
        if name in ("battery_sub", "pv_sub"):
            sub_regime = g.py_regimes(case)["bat_shared" if name == "battery_sub" else "pv_shared"]
        for t in out[name]["terms"]:
            if t[3]:
                fb = sum((env[i] for i, _ in t[3]), Fraction(0))
                if fb != env[t[1]]:
                    ctx.violation(f"{name}: fallback formula != primary component", strip(case),
                                  {"primary": t[1], "fallback": t[3], "primary_reads": rat(env[t[1]]), "fallback_sum": rat(fb)},
                                  regime="SubPoolSharedMeter" if sub_regime else None)
    # sub-pools
    for name, key, kind in (("battery_sub", "bat", "batInv"), ("pv_sub", "pv", "pvInv"), ("ev_sub", "ev", "ev")):
        if case.get(key) is None or name not in engines:
            continue
        if kind == "batInv":
            sel = {n["id"] for n in g.all_nodes(case) if n["k"] == "batInv" and set(n["bats"]) & set(case[key])}
        else:
            sel = set(case[key])
        true = sum((power[i] for i in sel), Fraction(0))
        val = g.evaluate(engines[name], env)
        if val != true:
            ctx.violation(f"{name}: pool formula != total of the pool's devices", strip(case),
                          {"pool": sorted(sel), "formula": out[name], "value": rat(val), "true": rat(true)},
                          regime=g.regime_subpool(case, kind, sel))


def strip(case: dict) -> dict:
    return case


def tags_of(case: dict, adm: bool) -> tuple[list[str], bool]:
    nodes = g.all_nodes(case)
    kinds = {n["k"] for n in nodes}
    tags = set()
    tags.add("single-grid-successor" if len(case["succ"]) == 1 else "several-grid-successors")
    sh = g.shared_batteries(case)
    if sh != "none":
        tags.add(f"shared-batteries-{sh}")
    if case.get("history"):
        tags.add(f"history-{len(case['history'])}-refreshes")
        roles = [{n["id"]: (g.one_kind(n["c"]) or ("load" if not n["c"] else "mixed")) for n in g.all_nodes(t) if n["k"] == "meter"}
                 for t in list(case["history"]) + [case]]
        if any(a[i] != b[i] for a, b in zip(roles, roles[1:]) for i in a if i in b):
            tags.add("history-meter-changes-role")
    if g.py_regimes(case)["grid_meters"]:
        tags.add("grid-meters")
    else:
        tags.add("no-grid-meter")
    if g.regime_consumer(case):
        tags.add("regime:NoGridMeterMixedMeter")
    for n in nodes:
        if n["k"] == "meter":
            d = g.one_kind(n["c"])
            tags.add(f"dedicated-{d}-meter" if d else ("load-only-meter" if not n["c"] else "mixed-meter"))
    if any(n["k"] == "meter" and any(c["k"] == "meter" for c in n["c"]) for n in nodes):
        tags.add("nested-meters")
    if not adm:
        tags.add("outside-quantifier")
    py = g.py_regimes(case)
    if py["bat_shared"] or py["pv_shared"]:
        tags.add("regime:SubPoolSharedMeter")
    nontrivial = any(n["k"] == "meter" and n["c"] for n in nodes) and len(kinds - {"meter"}) >= 2
    return sorted(tags), nontrivial


def check_case(ctx: Ctx, case: dict) -> dict:
    if case.get("history"):
        # one long-lived graph object: must generate what a fresh graph of the same topology generates
        out, engines = g.run_history(case)
        fresh, _ = g.run_impl(case)
        if out != fresh:
            diff = {k: {"refreshed_graph": out[k], "fresh_graph": fresh[k]} for k in out if out[k] != fresh[k]}
            ctx.violation("history: formulas generated on a refreshed graph object differ from those of a fresh graph "
                          "of the same topology", strip(case), diff)
    else:
        out, engines = g.run_impl(case)
    # inside the quantifier: batteries are shared only between inverters behind the same predecessor
    adm = g.admissible(case) and g.shared_batteries(case) != "across"
    if adm:
        oracle(ctx, case, out, engines)
    tags, nontrivial = tags_of(case, adm)
    ctx.case({k: case.get(k) for k in ("grid", "succ", "bat", "pv", "ev", "history")}, tags=tags, nontrivial=nontrivial)
    return g.model_view(out, g.py_regimes(case))


def driver_case(case: dict) -> dict:
    return {k: case.get(k) for k in ("grid", "succ", "bat", "pv", "ev")}


def load_corpus() -> list[dict]:
    d = pathlib.Path(__file__).resolve().parent.parent / "corpus" / "C12"
    return [json.loads(p.read_text()) for p in sorted(d.glob("*.json"))] if d.exists() else []


def complete(rng, case: dict) -> dict:
    """Corpus cases may omit the assignment / pools."""
    if "power" not in case or "load" not in case:
        full = g.make_case(rng, {"grid": case["grid"], "succ": case["succ"]})
        for k in ("bat", "pv", "ev"):
            if k in case:
                full[k] = case[k]
        return full
    for k in ("bat", "pv", "ev"):
        case.setdefault(k, None)
    return case


def history_cases(rng, steps: int) -> list[dict]:
    """One history t0 … t_steps -> a case per refresh (the topology held now + the topologies held before)."""
    topos = g.gen_history(rng, steps)
    made = [g.make_case(rng, t) for t in topos]
    out = []
    for i in range(1, len(made)):
        case = dict(made[i])
        case["history"] = [{k: made[j][k] for k in ("grid", "succ", "bat", "pv", "ev")} for j in range(i)]
        out.append(case)
    return out


def run(ctx: Ctx) -> None:
    python_flags()
    ctx.rule = RULE
    fp = g.fingerprints()
    changed = sorted(k for k, v in g.PINNED.items() if fp.get(k) != v) + sorted(k for k in fp if k not in g.PINNED)
    boost = 1
    if g.PINNED and changed:
        ctx.note("source_changed: " + ", ".join(changed[:12]))
        ctx.extra["modelled_functions_changed"] = changed
        boost = 3 if ctx.boost == 1 else 1     # (./check already boosts when the anchored files changed)
    n = ctx.budget(quick=4000, thorough=40000) * boost
    cases, impl_outs = [], []
    for i, c in enumerate(load_corpus()):
        case = complete(ctx.subrng("corpus", i), c)
        cases.append(case)
        impl_outs.append(check_case(ctx, case))
    for i in range(n):
        rng = ctx.subrng("tree", i)
        malformed = rng.random() < 0.12
        tree = g.gen_tree(rng, max_nodes=10, malformed=malformed)
        case = g.make_case(rng, tree)
        cases.append(case)
        impl_outs.append(check_case(ctx, case))
    for i in range(n // 10):
        rng = ctx.subrng("dc-bus", i)
        case = g.make_case(rng, g.gen_dc_bus(rng))
        cases.append(case)
        impl_outs.append(check_case(ctx, case))
    for i in range(n // 16):
        rng = ctx.subrng("history", i)
        for case in history_cases(rng, rng.randint(1, 2)):
            cases.append(case)
            impl_outs.append(check_case(ctx, case))
    if ctx.tier == "thorough" or ctx.boost > 1:
        rng = ctx.subrng("dc-exhaustive")
        count = 0
        # every wiring of <= 3 sibling battery inverters (each with its own battery, optionally also on the batteries of
        # the others) below the grid / a grid meter / a nested battery meter
        import itertools
        for k in (2, 3):
            pairs = [(i, j) for i in range(k) for j in range(k) if i != j]
            for extra in itertools.product((False, True), repeat=len(pairs)):
                for place in range(3):
                    invs = [{"k": "batInv", "id": 0, "bats": [0]} for _ in range(k)]
                    succ = invs if place == 0 else [{"k": "meter", "id": 0, "c": invs}] if place == 1 else \
                        [{"k": "meter", "id": 0, "c": [{"k": "meter", "id": 0, "c": invs}, {"k": "ev", "id": 0}]}]
                    tree = g.assign_ids(rng, {"grid": 0, "succ": succ}, spread=20)
                    own = [n["bats"][0] for n in invs]
                    for (i, j), e in zip(pairs, extra):
                        if e:
                            invs[i]["bats"].append(own[j])
                    case = g.make_case(rng, tree)
                    cases.append(case)
                    impl_outs.append(check_case(ctx, case))
                    count += 1
        ctx.extra["exhaustive_dc_wirings_le_3_inverters"] = count
    if ctx.tier == "thorough" or ctx.boost > 1:
        rng = ctx.subrng("exhaustive")
        count = 0
        for size in range(1, 7):
            for forest in g.enum_forests(size, 4):
                tree = g.assign_ids(rng, {"grid": 0, "succ": forest}, spread=20)
                case = g.make_case(rng, tree)
                cases.append(case)
                impl_outs.append(check_case(ctx, case))
                count += 1
        ctx.extra["exhaustive_trees_le_6_nodes"] = count
    ctx.compare("Graph", [driver_case(c) for c in cases], impl_outs, what="formula generators: signed multisets, flags, fallbacks, regimes")
    probe_grid_meter_load(ctx)
    probe_battery_shared_across_meters(ctx)

    from . import datapath  # full-stack stage: the same property through the real sourcing -> resampling -> formula stack
    datapath.run_stage(ctx, {"C12-balance"}, n_quick=40, n_thorough=600)


def probe_battery_shared_across_meters(ctx: Ctx) -> None:
    """Evidence only (outside the quantifier as read here: batteries are shared only behind one predecessor).  A battery
    on two inverters behind DIFFERENT battery meters: the fallback formula of each meter is the battery formula of the
    meter's batteries and therefore contains the inverter behind the other meter.  Recorded, never a violation."""
    case = {"grid": 1, "succ": [{"k": "meter", "id": 2, "c": [
        {"k": "meter", "id": 3, "c": [{"k": "batInv", "id": 4, "bats": [10]}]},
        {"k": "meter", "id": 7, "c": [{"k": "batInv", "id": 5, "bats": [10]}]}]}], "bat": None, "pv": None, "ev": None}
    out, engines = g.run_impl(case)
    power, load = {4: Fraction(5), 5: Fraction(3)}, {2: Fraction(1), 3: Fraction(0), 7: Fraction(0)}
    env = g.readings(case, power, load)
    off = []
    for t in (out["battery"].get("terms") or []):
        if t[3] and sum((env[i] for i, _ in t[3]), Fraction(0)) != env[t[1]]:
            off.append({"primary": t[1], "reads": rat(env[t[1]]), "fallback": [i for i, _ in t[3]],
                        "fallback_sum": rat(sum((env[i] for i, _ in t[3]), Fraction(0)))})
    ctx.extra["probe_battery_shared_across_meters"] = {"battery_formula": out["battery"], "fallbacks_off": off}


def probe_grid_meter_load(ctx: Ctx) -> None:
    """Evidence only (outside the quantifier as read here): a SINGLE grid meter whose successors are all of one
    device type is "dedicated" by shape but not by the code's `is_*_meter` (which exclude the grid meter).  If such a
    meter carried unmetered load, which formulas would be off?  Recorded, never reported as a violation."""
    res = {}
    for kind in g.DEVICE_KINDS:
        leaf = {"k": kind, "id": 3, "bats": [4]} if kind == "batInv" else {"k": kind, "id": 3}
        case = {"grid": 1, "succ": [{"k": "meter", "id": 2, "c": [leaf]}], "bat": None, "pv": None, "ev": None}
        out, engines = g.run_impl(case)
        power, load = {3: Fraction(5)}, {2: Fraction(2)}
        env = g.readings(case, power, load)
        want = totals(case, power, load)
        off = [n for n in CLAUSES if n in engines and g.evaluate(engines[n], env) != want[n]]
        for n in engines:
            for t in out[n]["terms"]:
                if t[3] and sum((env[i] for i, _ in t[3]), Fraction(0)) != env[t[1]]:
                    off.append(f"{n}-fallback")
        res[kind] = sorted(set(off))
    ctx.extra["probe_load_at_single_grid_meter_with_one_device_type"] = res


def replay(ctx: Ctx, data: dict) -> None:
    python_flags()
    case = data.get("case")
    if not case or "succ" not in case:
        return run(ctx)
    case = complete(ctx.subrng("replay"), case)
    out = check_case(ctx, case)
    ctx.compare("Graph", [driver_case(case)], [out])
