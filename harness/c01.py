"""C01 — battery power distribution conserves the requested power.

Oracle on the REAL `BatteryDistributionAlgorithm.distribute_power` (run on exact rationals and on floats) for
consistent data and requests admitted by the bounds the pool ADVERTISES (PowerBoundsCalculator; the reference
formula is sampled against the real calculator), independent of the Lean model:
  sum        : set-points + reported remainder = request (1e-7 relative to max(1, |request|): exact outside the known
               regimes up to the code's own 1e-9 tolerances; MW/GW-scale requests with W-scale overshoots are generated);
  sign       : every set-point has the sign of the request or is zero;
  remainder  : the remainder has the request's sign and does not exceed it in magnitude;
  reported-vs-commanded : `BatteryManager._distribute_power` (fake API client with scripted outcomes per inverter:
               accepted / OperationOutOfRange / another ApiClientError / unknown exception / no answer within the timeout,
               often exactly ONE inverter refused) reports as succeeded exactly the power of the `set_power` calls the API
               accepted;
  commanded-plus-excess : the sum clause observed at the manager: the power of ALL `set_power` calls it made plus the
               excess it reports = request — for `Request.adjust_power` True and False (False only where the real
               `_check_request` forwards the request: inside the inclusion bounds the remainder can still be
               non-zero, e.g. a battery at its SoC limit), with and without scripted `set_power` failures.
Sequences of 2-4 calls on ONE algorithm instance (data of some components changed in between, unchanged components
keep their timestamps): every call is checked with the clauses above against the data of that call.
Correspondence: the same case through the Lean driver — every set-point, the remainder, the regime tags, the
domain predicates and the manager's report arithmetic must be equal.
"""
from __future__ import annotations

from . import distribution_gen as g
from .common import Ctx


def run(ctx: Ctx) -> None:
    g.run_property(ctx, "C01")


def replay(ctx: Ctx, data: dict) -> None:
    g.replay_property(ctx, "C01", data)
