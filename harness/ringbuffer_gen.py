"""Ring buffer / moving window (C09): case format, real-code runner, reference oracle, generators.

A case (also the input line of `lean/Drivers/RingBuffer.lean`):

    {"cap": n, "period": µs, "align": µs, "container": "list"|"numpy", "init": [rat,…],
     "ops": [{"ts": µs, "v": rat|null, "nan": bool}, …], "q": [query, …], "pickle": bool,
     "tz": null | IANA zone | "+HH:MM",          (the tzinfo every datetime handed to the real code carries; the instants —
                                                   all this file and the model talk about — are the same)
     "reload": [[k, "pickle"|"deepcopy"], …]}     (before the k-th update — k = 0: before the first, k = len: after the last —
                                                   the buffer is dumped and loaded / deep-copied and the copy goes on)

All timestamps are integer microseconds since the UNIX epoch (exact as `datetime`); values are small
integers (exact as floats).  The container is pre-filled with the negative numbers `init`, which are never
written by an update: any of them (or any value of an evicted slot) showing up in a result is a leak.

The oracle is a plain dict `{slot number: last valid value}` plus the newest slot, with its own rounding
of timestamps to slots (nearest, ties to even) — it shares no code with the Lean model.
"""
from __future__ import annotations

import math
import os
import pickle
import random
import tempfile
from datetime import datetime, timedelta
from fractions import Fraction
from typing import Any

US = timedelta(microseconds=1)
FILL_NUM = "-7777"
MAX_INDEX = 2 ** 40  # |slot number| bound: keeps `round(total_seconds ratio)` of to_internal_index exact


# ----------------------------------------------------------------------------- real code
def _imports():
    import numpy as np
    from frequenz.channels import Broadcast
    from frequenz.quantities import Quantity
    from frequenz.sdk.timeseries import UNIX_EPOCH, MovingWindow, Sample
    from frequenz.sdk.timeseries._ringbuffer import OrderedRingBuffer
    from frequenz.sdk.timeseries._ringbuffer import serialization

    return np, Broadcast, Quantity, UNIX_EPOCH, MovingWindow, Sample, OrderedRingBuffer, serialization


def tzinfo_of(name: str | None):
    """`None` -> UTC; "+05:30" / "-03:00" -> a fixed offset; anything else -> `ZoneInfo(name)` (may observe DST)."""
    from datetime import timezone

    if name is None:
        return timezone.utc
    if name[0] in "+-":
        hh, mm = name[1:].split(":")
        return timezone((1 if name[0] == "+" else -1) * timedelta(hours=int(hh), minutes=int(mm)))
    from zoneinfo import ZoneInfo

    return ZoneInfo(name)


def to_dt(us: int, tz: str | None = None) -> datetime:
    """The instant `us` µs after the epoch, as an aware datetime in the given zone (same instant, other wall clock)."""
    from frequenz.sdk.timeseries import UNIX_EPOCH

    dt = UNIX_EPOCH + timedelta(microseconds=us)
    return dt if tz is None else dt.astimezone(tzinfo_of(tz))


def to_us(dt: datetime | None) -> int | None:
    from frequenz.sdk.timeseries import UNIX_EPOCH

    return None if dt is None else (dt - UNIX_EPOCH) // US


def val_out(x: Any) -> str | None:
    """Canonical value: None for NaN, integer/rational string otherwise."""
    x = float(x)
    if math.isnan(x):
        return None
    fr = Fraction(x)
    return str(fr.numerator) if fr.denominator == 1 else f"{fr.numerator}/{fr.denominator}"


def fill_arg(f: Any, as_int: bool = False) -> Any:
    """`fill_value` argument of a query: null = NaN (the default), "raw" = None, otherwise the number — as a Python
    `int` when the query carries `"fi": true` (so that `0` and `0.0`, both falsy, are both exercised)."""
    if f is None:
        return float("nan")
    if f == "raw":
        return None
    return int(Fraction(f)) if as_int else float(Fraction(f))


# numeric fill values used by the generators: falsy zero (int and float), a negative and a fractional number
FILLS: list[tuple[str, bool]] = [("0", False), ("0", True), ("-7777", False), ("5/2", False), ("-30", True)]


class Real:
    """One real `OrderedRingBuffer` (list or numpy container) with a real `MovingWindow` on top of it."""

    def __init__(self, case: dict):
        np, Broadcast, Quantity, _E, MovingWindow, Sample, ORB, ser = _imports()
        self.np, self.Quantity, self.Sample, self.ser = np, Quantity, Sample, ser
        self.tz = case.get("tz")
        init = [float(Fraction(x)) for x in case["init"]]
        container = np.array(init, dtype=float) if case["container"] == "numpy" else list(init)
        period = timedelta(microseconds=case["period"])
        self.rb = ORB(container, period, to_dt(case["align"]))
        chan = Broadcast(name="c09")
        # a real MovingWindow (never started: no task, no event loop needed) reading the buffer under test
        self.mw = MovingWindow(period * case["cap"], chan.new_receiver(), period, align_to=to_dt(case["align"]))

    def clone(self) -> "Real":
        """Independent copy of the buffer (the MovingWindow wrapper is stateless and shared)."""
        import copy

        other = copy.copy(self)
        other.rb = copy.deepcopy(self.rb)
        return other

    def update(self, op: dict) -> bool:
        if op["v"] is None:
            value = self.Quantity(float("nan")) if op.get("nan") else None
        else:
            value = self.Quantity(float(Fraction(op["v"])))
        try:
            self.rb.update(self.Sample(to_dt(op["ts"], self.tz), value))
            return False
        except IndexError:
            return True
        except Exception as exc:  # pylint: disable=broad-except
            return type(exc).__name__  # type: ignore[return-value]   # (neither accepted nor rejected: a mismatch)

    def observe(self, rej: bool) -> dict:
        rb = self.rb

        def safe(f: Any) -> Any:
            try:
                return f()
            except Exception as exc:  # pylint: disable=broad-except
                return type(exc).__name__

        return {"rej": rej, "gaps": safe(lambda: [[to_us(g.start), to_us(g.end)] for g in rb.gaps]),
                "cv": safe(lambda: int(rb.count_valid())), "cc": safe(lambda: int(rb.count_covered())),
                "old": safe(lambda: to_us(rb.oldest_timestamp)), "new": safe(lambda: to_us(rb.newest_timestamp))}

    def roundtrip(self, how: str = "pickle") -> None:
        """`serialization.dump` + `load` (pickle) or `copy.deepcopy`, then go on with the new instance."""
        if how == "deepcopy":
            import copy

            self.rb = copy.deepcopy(self.rb)
            return
        fd, path = tempfile.mkstemp(prefix="c09-", suffix=".pkl")
        os.close(fd)
        try:
            self.ser.dump(self.rb, path)
            self.rb = self.ser.load(path)
        finally:
            os.unlink(path)

    def query(self, q: dict) -> tuple[Any, str | None]:
        """Result in canonical form, and a note when `MovingWindow[...]` disagrees with the direct call."""
        note = None
        k = q["k"]
        self.mw._buffer = self.rb  # pylint: disable=protected-access
        if k in ("widx", "wts"):
            a, b = (q["i"], q["j"]) if k == "widx" else (to_dt(q["a"], self.tz), to_dt(q["b"], self.tz))
            fill = fill_arg(q.get("fill"), bool(q.get("fi")))
            kw = {"fill_value": fill}
            if "fc" in q:
                kw["force_copy"] = bool(q["fc"])   # (False only together with fill "raw": a view is allowed then)

            def call(f: Any, *args: Any, **kwargs: Any) -> Any:
                """Result in canonical form; an exception is a result too (`"IndexError"`, …), never a crash."""
                try:
                    return [val_out(x) for x in f(*args, **kwargs)]
                except Exception as exc:  # pylint: disable=broad-except
                    return type(exc).__name__

            res = call(self.rb.window, a, b, **kw)
            # the same query through the wrapper: `MovingWindow.window` must hand every argument through unchanged,
            # `MovingWindow[a:b]` is the default query (the direct call's result is what the oracle checks)
            via = call(self.mw.window, a, b, **kw) if (q.get("fill") is not None or "fc" in q or q.get("span")) else res
            if via != res:
                note = (f"MovingWindow.window(fill_value={q.get('fill')}{' (int)' if q.get('fi') else ''}"
                        f"{', force_copy=False' if q.get('fc') is False else ''})={via} but buffer.window={res} for {q}")
            if q.get("fill") is None and "fc" not in q:
                via = call(lambda: self.mw[a:b])
                if via != res:
                    note = f"MovingWindow[a:b]={via} but buffer.window={res} for {q}"
            return res, note
        key = q["i"] if k == "ati" else to_dt(q["t"], self.tz)
        outs = []
        for f in (self.mw.at, self.mw.__getitem__):
            try:
                outs.append(val_out(f(key)))
            except IndexError:
                outs.append("IndexError")
            except Exception as exc:  # pylint: disable=broad-except
                outs.append(type(exc).__name__)
        if outs[0] != outs[1]:
            note = f"MovingWindow[key]={outs[1]} but at(key)={outs[0]}"
        return outs[0], note


def run_impl(case: dict) -> tuple[dict, list[str]]:
    r = Real(case)
    steps, notes = [], []
    reload_at: dict[int, list[str]] = {}
    for k, how in case.get("reload", []):
        reload_at.setdefault(k, []).append(how)
    for i, op in enumerate(case["ops"]):
        for how in reload_at.get(i, []):
            r.roundtrip(how)
        steps.append(r.observe(r.update(op)))
    for how in reload_at.get(len(case["ops"]), []):
        r.roundtrip(how)
    if case.get("pickle"):
        r.roundtrip()
        after = r.observe(steps[-1]["rej"]) if steps else None
        if steps and after != steps[-1]:
            notes.append(f"state changed by dump/load: {steps[-1]} -> {after}")
    qs = []
    for q in case["q"]:
        res, note = r.query(q)
        qs.append(res)
        if note:
            notes.append(note)
    return {"steps": steps, "q": qs}, notes


# ----------------------------------------------------------------------------- reference oracle
def nearest_slot(ts: int, align: int, period: int) -> int:
    """Slot number of a timestamp: nearest grid point, exact ties to the even slot."""
    d = ts - align
    k = (2 * d + period) // (2 * period)          # floor(d/period + 1/2): ties go up
    if (2 * d + period) % (2 * period) == 0 and k % 2 != 0:
        k -= 1                                     # exact tie and `k` odd: the even neighbour is `k - 1`
    return k


class Ref:
    def __init__(self, case: dict):
        self.cap, self.period, self.align = case["cap"], case["period"], case["align"]
        self.newest: int | None = None
        self.vals: dict[int, str] = {}

    def slot(self, ts: int) -> int:
        return nearest_slot(ts, self.align, self.period)

    def time(self, k: int) -> int:
        return self.align + k * self.period

    def update(self, op: dict) -> bool:
        k = self.slot(op["ts"])
        if self.newest is not None and k < self.newest - self.cap + 1:
            return True
        self.newest = k if self.newest is None else max(self.newest, k)
        if op["v"] is None:
            self.vals.pop(k, None)
        else:
            self.vals[k] = op["v"]
        lo = self.newest - self.cap + 1
        self.vals = {s: v for s, v in self.vals.items() if s >= lo}
        return False

    # expected observers
    def gaps(self) -> list[list[int]]:
        if self.newest is None:
            return []
        out, start = [], None
        for k in range(self.newest - self.cap + 1, self.newest + 2):
            missing = k <= self.newest and k not in self.vals
            if missing and start is None:
                start = k
            if not missing and start is not None:
                out.append([self.time(start), self.time(k)])
                start = None
        return out

    def oldest(self) -> int | None:
        return min(self.vals) if self.vals else None

    def covered(self) -> int:
        return self.newest - min(self.vals) + 1 if self.vals else 0

    def expect_step(self, rej: bool) -> dict:
        o = self.oldest()
        return {"rej": rej, "gaps": self.gaps(), "cv": len(self.vals), "cc": self.covered(),
                "old": None if o is None else self.time(o), "new": self.time(self.newest) if self.vals else None}

    def expect_query(self, q: dict) -> Any:
        k = q["k"]
        fill = None if q.get("fill") is None else q["fill"]
        if k == "widx":
            if not self.vals:
                return []
            a, b, _ = slice(q["i"], q["j"]).indices(self.covered())
            lo = self.oldest()
            return [self.vals.get(lo + x, fill) for x in range(a, b)]
        if k == "wts":
            if not self.vals:
                return []
            ka = max(self.slot(q["a"]), self.oldest())
            kb = min(self.slot(q["b"]), self.newest + 1)
            return [self.vals.get(s, fill) for s in range(ka, kb)]
        if not self.vals:
            return "IndexError"
        if k == "ati":
            n = self.covered()
            if not -n <= q["i"] < n:
                return "IndexError"
            s = self.oldest() + q["i"] if q["i"] >= 0 else self.newest + 1 + q["i"]
            return self.vals.get(s)
        if q["t"] < self.time(self.oldest()) or q["t"] > self.time(self.newest):
            return "IndexError"
        return self.vals.get(self.slot(q["t"]))

    def regime(self, q: dict) -> str | None:
        """Input-only classification of a query (names of the pinned tree's defects)."""
        if not self.vals:
            return None
        k = q["k"]
        if k == "ati":
            n = self.covered()
            if not -n <= q["i"] < n:
                return "AtOnGapOrEvictedSlot"
            s = self.oldest() + q["i"] if q["i"] >= 0 else self.newest + 1 + q["i"]
            return "AtOnGapOrEvictedSlot" if s not in self.vals else None
        if k == "att":
            if self.time(self.oldest()) <= q["t"] <= self.time(self.newest) and self.slot(q["t"]) not in self.vals:
                return "AtOnGapOrEvictedSlot"
            return None
        if k == "wts":
            a = max(q["a"], self.time(self.oldest()))
            b = min(q["b"], self.time(self.newest + 1))
            if a < b and self.slot(a) >= self.slot(b):
                return "WindowSpanWithoutSlot"
            if (a - self.align) % self.period != 0 and len(self.vals) < self.newest - self.oldest() + 1:
                return "WindowUnalignedStartWithGaps"
        return None


def float_floor_div_exact(covered_slots: int, period_us: int) -> bool:
    """Is `total_seconds(covered) // total_seconds(period)` (floats) equal to the exact quotient?"""
    return (covered_slots * period_us / 1e6) // (period_us / 1e6) == covered_slots


def check_case(case: dict, out: dict, notes: list[str]) -> list[tuple[str, Any, str | None]]:
    """Evaluate the property on the real code's outputs.  Returns [(clause, observed, regime)]."""
    bad: list[tuple[str, Any, str | None]] = []
    ref = Ref(case)
    for i, (op, st) in enumerate(zip(case["ops"], out["steps"])):
        rej = ref.update(op)
        exp = ref.expect_step(rej)
        got = dict(st)
        # an empty range `Gap(t, t)` covers no slot; the only one the code leaves behind is `Gap(newest, newest)` for
        # capacity 1 right after a jump — that one is ignored; the list must be sorted and well-formed
        well_formed = not isinstance(got["gaps"], list) or (
            all(s <= e for s, e in got["gaps"]) and got["gaps"] == sorted(got["gaps"]))
        newest_t = ref.time(ref.newest) if ref.newest is not None else None
        if case["cap"] == 1 and got["gaps"] == [[newest_t, newest_t]]:
            got["gaps"] = []
        for key, clause in (("rej", "reject-old"), ("gaps", "gaps"), ("cv", "count_valid"), ("old", "oldest_timestamp"),
                            ("new", "newest_timestamp"), ("cc", "count_covered")):
            if got[key] != exp[key]:
                reg = None
                if key == "cc" and ref.vals and not float_floor_div_exact(ref.covered(), case["period"]):
                    reg = "CountCoveredFloatQuotient"
                bad.append((clause, {"step": i, "expected": exp[key], "observed": st[key]}, reg))
        if not well_formed:
            bad.append(("gaps", {"step": i, "observed": st["gaps"], "why": "not sorted / start > end"}, None))
    cc_float_off = bool(ref.vals) and not float_floor_div_exact(ref.covered(), case["period"])
    for q, got in zip(case["q"], out["q"]):
        exp = ref.expect_query(q)
        if q.get("fill") == "raw":
            # `fill_value=None` hands out the raw container by design: what a slot without a valid value shows is not
            # specified (model = code only) — but WHICH slots are returned is, and so is every valid value
            hole = "<unspecified>"
            exp = ref.expect_query(dict(q, fill=hole))
            if isinstance(got, list) and len(got) == len(exp):
                got = [hole if e == hole else g for g, e in zip(got, exp)]
        if got != exp:
            reg = ref.regime(q)
            if reg is None and cc_float_off and q["k"] in ("widx", "ati"):
                reg = "CountCoveredFloatQuotient"
            if q["k"] in ("widx", "wts") and not isinstance(got, list):
                clause = "window-raises"      # a legal query never raises: a range without a stored slot is empty
            elif q["k"] in ("widx", "wts"):
                leaked = [v for v in got if v is not None and v != q.get("fill") and v not in ref.vals.values()
                          and q.get("fill") != "raw"]
                span = (q["b"] - q["a"]) if q["k"] == "wts" else None
                if leaked:
                    clause = "window-leaks-evicted-or-unwritten"
                elif span is not None and len(got) * case["period"] > max(span, 0) + case["period"]:
                    clause = "window-more-slots-than-span"
                else:
                    clause = "window-content"
            else:
                clause = "at"
            bad.append((clause, {"query": q, "expected": exp, "observed": got}, reg))
    for n in notes:
        bad.append(("moving-window-wrapper", n, None))
    return bad


# ----------------------------------------------------------------------------- generators
PERIODS = [1_000_000, 200_000, 100_000, 2, 10, 300_000_000, 1_000, 7_000_000]   # even numbers of µs
ODD_PERIODS = [3, 5, 7, 1_000_001]
ALIGNS = [0, 137, -250_000, 946_684_800_000_000]  # epoch, off-grid, before epoch, 2000-01-01
# non-UTC zones for the datetimes handed to the real code: two that observe DST, fixed offsets (incl. a half-hour one)
ZONES = ["Europe/Berlin", "America/New_York", "+05:30", "-03:00", "Australia/Lord_Howe"]
# instants of DST switches (UTC µs): Berlin 2023-03-26 01:00 / 2023-10-29 01:00, New York 2023-03-12 07:00 / 2023-11-05 06:00
DST_SWITCHES = [1_679_792_400_000_000, 1_698_541_200_000_000, 1_678_604_400_000_000, 1_699_164_000_000_000]
DST_PERIODS = [900_000_000, 1_800_000_000, 3_600_000_000]   # 15 min, 30 min, 1 h: a few slots span the switch


def init_for(cap: int) -> list[str]:
    return [str(-(i + 1)) for i in range(cap)]


def sub_offsets(period: int) -> list[int]:
    """Offsets inside one period that matter: on the grid, next to it, around the half-way point."""
    h = period // 2
    return sorted({0, 1, -1, h, -h, h - 1, h + 1, -(h - 1), -(h + 1), period // 4, -(period // 4)} - {period, -period})


def gen_ops(rng: random.Random, cap: int, period: int, align: int, n: int, base_slot: int) -> list[dict]:
    ops: list[dict] = []
    newest = None
    offs = sub_offsets(period)
    for i in range(n):
        r = rng.random()
        if newest is None:
            k = base_slot
        elif r < 0.30:
            k = newest + 1                                   # in order
        elif r < 0.55:
            k = newest - rng.randint(0, cap - 1)             # inside the window (overwrite / fill a gap)
        elif r < 0.70:
            k = newest + rng.randint(2, max(2, cap))         # skip a few slots
        elif r < 0.80:
            k = newest + cap + rng.randint(0, 3)             # jump of at least the capacity
        elif r < 0.92:
            k = newest - cap + rng.randint(-2, 1)            # around the oldest slot (reject boundary)
        else:
            k = newest + rng.randint(-2 * cap, 2 * cap)
        off = rng.choice(offs) if rng.random() < 0.5 else 0
        ts = align + k * period + off
        kind = rng.random()
        if kind < 0.68:
            op = {"ts": ts, "v": str(10 * (i + 1) + rng.randint(0, 4)), "nan": False}
        else:
            op = {"ts": ts, "v": None, "nan": kind < 0.84}
        ops.append(op)
        kk = nearest_slot(ts, align, period)
        if newest is None or kk >= newest - cap + 1:
            newest = kk if newest is None else max(newest, kk)
    return ops


def gen_queries(rng: random.Random, case: dict, rich: bool) -> list[dict]:
    cap, period, align = case["cap"], case["period"], case["align"]
    ref = Ref(case)
    for op in case["ops"]:
        ref.update(op)
    qs: list[dict] = []
    idx: list[int | None] = [None] + list(range(-cap - 2, cap + 3))
    pairs = [(i, j) for i in idx for j in idx]
    if not rich:
        pairs = rng.sample(pairs, min(len(pairs), 40))
    for i, j in pairs:
        qs.append({"k": "widx", "i": i, "j": j, "fill": None})
    for n, (i, j) in enumerate(rng.sample(pairs, min(len(pairs), 8)) + [(None, None)] * len(FILLS)):
        f, as_int = FILLS[n % len(FILLS)]
        qs.append({"k": "widx", "i": i, "j": j, "fill": f, "fi": as_int})
        if n < 4:
            qs.append({"k": "widx", "i": i, "j": j, "fill": "raw"})
    newest = ref.newest if ref.newest is not None else 0
    grid = list(range(newest - cap - 1, newest + 3))
    offs = sub_offsets(period)
    times = sorted({align + k * period + o for k in grid for o in offs})
    tpairs: list[tuple[int, int]] = []
    aligned = [align + k * period for k in grid]
    tpairs += [(a, b) for a in aligned for b in aligned] if rich else rng.sample([(a, b) for a in aligned for b in aligned], 12)
    for _ in range(60 if rich else 25):
        a = rng.choice(times)
        r = rng.random()
        if r < 0.35:
            b = a + rng.choice([1, period // 5, period // 2, period - 1, period, period + 1])   # closer than ~one period
        elif r < 0.45:
            b = a - rng.choice([0, 1, period])
        else:
            b = rng.choice(times)
        tpairs.append((a, b))
    for a, b in tpairs:
        qs.append({"k": "wts", "a": a, "b": b, "fill": None})
    whole = (align + (newest - cap) * period, align + (newest + 2) * period)
    for n, (a, b) in enumerate(rng.sample(tpairs, min(len(tpairs), 8)) + [whole] * len(FILLS)):
        f, as_int = FILLS[(n + 1) % len(FILLS)]
        qs.append({"k": "wts", "a": a, "b": b, "fill": f, "fi": as_int})
        if n < 4:
            qs.append({"k": "wts", "a": a, "b": b, "fill": "raw"})
    for i in range(-cap - 2, cap + 3):
        qs.append({"k": "ati", "i": i})
    for t in (times if rich else rng.sample(times, min(len(times), 16))):
        qs.append({"k": "att", "t": t})
    return qs


def span_queries(case: dict, rng: random.Random | None = None) -> list[dict]:
    """Datetime windows placed relative to the two ends of the stored span: entirely after the newest slot, entirely
    before the oldest valid one, straddling either end, starting / ending exactly one period outside, far away; every
    bound on the grid and off it (just next to it, around the half-way point); default fill, explicit fills, raw reads
    with and without `force_copy`.  With `rng`: a sample of them (the plain budget), otherwise all."""
    period, align = case["period"], case["align"]
    ref = Ref(case)
    for op in case["ops"]:
        ref.update(op)
    if ref.newest is None:
        lo = hi = 0
    else:
        lo, hi = (ref.oldest() if ref.vals else ref.newest - case["cap"] + 1), ref.newest
    h = period // 2
    offs = sorted({0, 1, -1, h, h + 1, -h, period * 7 // 10, -(period * 3 // 10)} - {period, -period})
    slots_a = [hi - 1, hi, hi + 1, hi + 2, hi + 3, hi + 30, lo - 30, lo - 3, lo - 2, lo - 1, lo, lo + 1]
    pairs: list[tuple[int, int]] = []
    for ka in slots_a:
        for kb in (ka, ka + 1, ka + 2, hi + 1, hi + 2, hi + 60, lo - 1, lo, lo - 60):
            for oa in offs:
                for ob in (0, oa, period * 2 // 10):
                    pairs.append((align + ka * period + oa, align + kb * period + ob))
    pairs = sorted(set(pairs))
    if rng is not None:
        pairs = rng.sample(pairs, min(len(pairs), 24))
    qs: list[dict] = []
    for n, (a, b) in enumerate(pairs):
        qs.append({"k": "wts", "a": a, "b": b, "fill": None, "span": True})   # (`span`: also via MovingWindow.window)
        kind = n % 4 if rng is None else rng.randrange(8)
        if kind == 0:
            f, as_int = FILLS[(n // 4) % len(FILLS)]
            qs.append({"k": "wts", "a": a, "b": b, "fill": f, "fi": as_int})
        elif kind == 1:
            qs.append({"k": "wts", "a": a, "b": b, "fill": "raw"})
        elif kind == 2:
            qs.append({"k": "wts", "a": a, "b": b, "fill": "raw", "fc": False})
    return qs


def gen_case(rng: random.Random, odd_period: bool = False) -> dict:
    cap = rng.choice([1, 2, 3, 3, 4, 5, 6])
    period = rng.choice(ODD_PERIODS if odd_period else PERIODS)
    align = rng.choice(ALIGNS)
    # a quarter of the cases: datetimes in a non-UTC zone, half of those with the window around a DST switch
    tz = rng.choice(ZONES) if (not odd_period and rng.random() < 0.25) else None
    around_switch = tz is not None and rng.random() < 0.6
    if around_switch:
        period = rng.choice(DST_PERIODS)
        align = rng.choice([0, 946_684_800_000_000])
    # keep slot numbers small enough for the float index computation of the real code (see module doc)
    span = MAX_INDEX * period
    base_ts = rng.choice([0, 1_700_000_000_000_000, align])
    if around_switch:
        base_ts = rng.choice(DST_SWITCHES) + rng.randint(-cap, 1) * period
    if abs(base_ts - align) > span:
        base_ts = align + rng.randint(-1000, 1000) * period
    base_slot = (base_ts - align) // period
    case = {"cap": cap, "period": period, "align": align, "container": rng.choice(["list", "numpy"]),
            "init": init_for(cap), "ops": gen_ops(rng, cap, period, align, rng.randint(1, 25), base_slot),
            "pickle": rng.random() < 0.08}
    if tz is not None:
        case["tz"] = tz
    if rng.random() < 0.2:
        # the buffer is dumped / loaded or deep-copied at a few points of the history (half of the time incl. k = 0:
        # a buffer that has never been updated) and must go on exactly like the original
        ks = sorted({0} if rng.random() < 0.5 else set()) + sorted(rng.sample(range(len(case["ops"]) + 1),
                                                                               min(2, len(case["ops"]) + 1)))
        case["reload"] = [[k, rng.choice(["pickle", "deepcopy"])] for k in sorted(set(ks))]
    case["q"] = gen_queries(rng, case, rich=False) + span_queries(case, rng)
    return case


def model_case(case: dict) -> dict:
    """What the Lean driver needs (no container, no NaN-vs-None distinction)."""
    return {"cap": case["cap"], "period": case["period"], "align": case["align"], "init": case["init"],
            "ops": [{"ts": o["ts"], "v": o["v"]} for o in case["ops"]], "q": case["q"]}
