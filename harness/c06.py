"""C06 — every formula sample is computed from inputs of a single timestamp; timestamps advance by one step.

Real code under test: `FormulaEngine` built with `FormulaBuilder` over real `Broadcast` receivers (formula = sum of
the streams, per-stream `nones_are_zeros`), and `FormulaEngine3Phase` over three such engines, on an
`async_solipsism` loop.

A case = {"kind": "single", "n", "nz": [bool…], "t0us", "stepus", "cap" (receiver limit),
          "events": [["D", i, tick, val, settle?] | ["attach"] | ["attach2"]]}
       | {"kind": "3phase", "phases": [{"n", "nz"} ×3], …, "events": [["D", p, i, tick, val, settle?] | ["attach"]]}
`attach` = the consumer calls `new_receiver()` (which starts the engine task); input receivers exist from the start
and buffer.  `settle?` = 0 means: do not yield to the loop after this send (bursts).  Stream `i` delivers the
consecutive ticks t0_i, t0_i+1, …; schedules are order-preserving interleavings; the backlog of every receiver
stays within `cap`.

Oracle (independent of the Lean model):
  single-ts   every output stamped T has the value of the formula on the fed samples stamped T;
  first       the first output is stamped max_i t0_i (all inputs available);
  step        consecutive outputs are exactly one input step apart (µs), none skipped/repeated/reordered;
  complete    every tick from the first one up to the last tick delivered on all streams is emitted (after attach);
  suffix      a consumer attached later sees a contiguous suffix of the same sequence;
  capacity    re-running with the receiver limit set to a schedule-determined bound of the backlog (samples delivered
              on a stream minus outputs emitted so far) gives the same outputs.
Terms with a fallback (kind "fb"):
  {"kind": "fb", "n", "nz", "fb": [0 none | 1 channel-backed FallbackMetricFetcher | 2/3 real
   FallbackFormulaMetricFetcher over 1/2 component channels], "t0us", "stepus", "cap",
   "events": [["D", i, tick, val, settle?] | ["F", i, tick, [component vals], settle?] | ["attach"]]}
`F` = the fallback source of term i emits its (gap-free) next tick; the lazily started fallback only sees what is
emitted after its `start()`.  Values: a sample of stream position p stamped t is (t+1)*256**p (`fb_layout`), so a
value reveals which (stream, tick)s it was computed from.  The real run records the completion of every
`fetch_next()` between the harness actions; the Lean model (`Evaluator.stepF`, events `dP`/`dF`/`fetch`) replays that
trace: it must be able to take every observed fetch with the same result, must have none left to take wherever the
real loop was quiescent, and must emit the same outputs.
Oracle for "fb" (independent of the model): first / step as above; single-ts: the value of an output stamped T is
the formula on, per term, the primary sample stamped T if valid, else the fallback sample stamped T or the invalid
primary sample itself (fallback not started / not there yet — C19's start-up window); never a sample stamped != T;
complete: every tick up to the first invalid primary sample of a term with a fallback is emitted.

Time gaps (all kinds): ["W", seconds] = the harness lets that much EVENT-LOOP time pass (virtual clock of
async_solipsism) before the next action - a stream lagging 31 s, 10 min, hours behind the others at start-up or in the
steady state.  The property's quantifier bounds no delay ("every interleaving of deliveries that preserves per-stream
order"), the code under test has no clock, and neither has the model: `W` is dropped from the model's case (a stutter
step) and the oracle does not look at it - outputs must be exactly those of the same schedule without the waits.

No known-finding regime: the 3-phase engine is expected to hold in full (fixes/C06-3phase-resync.patch); on a tree
without the patch the witness corpus/C06/three_phase_different_start.json fails (per-phase engines with different
first common timestamps are zipped without comparing timestamps).
"""
from __future__ import annotations

from fractions import Fraction
from typing import Any

from . import evaluator_gen as g
from .common import Ctx, python_flags, rat

RULE = ("1-4 gap-free streams per engine with first ticks differing by 0-3, values valid/None/NaN, per-stream "
        "nones_are_zeros, random order-preserving interleavings of the deliveries (bursty / round-robin / one stream "
        "far ahead), sends with and without a loop yield, consumer attached before / between / after the deliveries, "
        "receiver limit = default or exactly the largest backlog; single-phase and 3-phase engines; non-trivial = "
        ">=2 streams with different first ticks or lag >= 2 between streams at some point; plus engines of 1-3 terms "
        "with fallbacks (channel-backed FallbackMetricFetcher / real FallbackFormulaMetricFetcher over 1-2 components): "
        "primaries valid/invalid in runs, fallback source a gap-free stream starting -2..+4 ticks around the primary, "
        "wall-clock schedules with lagging terms / backlog before attach / random interleavings, so the lazily started "
        "fallback's first sample is earlier than / equal to / later than the primary sample being processed "
        "(non-trivial = a fallback was started and saw a sample); 30% of all schedules with 1-3 gaps of 1 s .. 25 h of event-loop time (virtual clock) between deliveries of "
        "different streams, before the attach and while the engine runs; distinct by canonical JSON hash")



# ------------------------------------------------------------------------------------------ real code
async def _run_single(case: dict, cap: int | None, observe_backlog: bool) -> dict:
    fe = g.import_engine()
    from frequenz.channels import Broadcast
    from frequenz.quantities import Quantity

    grid = g.Grid(case["t0us"], case["stepus"])
    n = case["n"]
    chans = [Broadcast(name=f"s{i}") for i in range(n)]
    limit = cap if cap is not None else case.get("cap", 50)
    rxs = [c.new_receiver(limit=limit) for c in chans]
    b = fe.FormulaBuilder("f", Quantity)
    for i in range(n):
        if i:
            b.push_oper("+")
        b.push_metric(f"#{i}", rxs[i], nones_are_zeros=case["nz"][i])
    engine = b.build()
    senders = [c.new_sender() for c in chans]
    out_rx = out_rx2 = None
    # Upper bound of every receiver's backlog that does not depend on the (arbitrary) order in which the evaluator
    # drains lagging streams during its first run: samples delivered on the stream minus outputs emitted so far
    # (every output consumed one sample of every stream).
    backlog = 0
    delivered = [0] * n
    spinning = False
    for ev in case["events"]:
        if ev[0] == "D":
            await senders[ev[1]].send(g.mk_sample(grid, ev[2], ev[3]))
            delivered[ev[1]] += 1
            backlog = max(backlog, max(delivered) - (len(out_rx) if out_rx is not None else 0))
            if len(ev) > 4 and not ev[4]:
                continue
        elif ev[0] == "attach":
            out_rx = engine.new_receiver(max_size=10000)
        elif ev[0] == "W":
            await g.wait_virtual(ev[1])
        elif ev[0] == "attach2":
            out_rx2 = engine.new_receiver(max_size=10000)
        if not await g.settle():
            spinning = True
    await g.settle()
    outs = []
    outs2 = []
    if out_rx is not None:
        while len(out_rx):
            s = out_rx.consume()
            outs.append([grid.us(s.timestamp), g.canon_value(s.value)])
    if out_rx2 is not None:
        while len(out_rx2):
            s = out_rx2.consume()
            outs2.append([grid.us(s.timestamp), g.canon_value(s.value)])
    await engine._stop()  # pylint: disable=protected-access
    return {"out_us": outs, "out2_us": outs2, "backlog": backlog, "spinning": spinning}


async def _run_3phase(case: dict) -> dict:
    fe = g.import_engine()
    from frequenz.channels import Broadcast
    from frequenz.quantities import Quantity

    grid = g.Grid(case["t0us"], case["stepus"])
    chans: list[list[Any]] = []
    engines = []
    for p, ph in enumerate(case["phases"]):
        cs = [Broadcast(name=f"p{p}s{i}") for i in range(ph["n"])]
        chans.append(cs)
        b = fe.FormulaBuilder(f"phase{p}", Quantity)
        for i, c in enumerate(cs):
            if i:
                b.push_oper("+")
            b.push_metric(f"#{p}{i}", c.new_receiver(limit=case.get("cap", 50)), nones_are_zeros=ph["nz"][i])
        engines.append(b.build())
    engine = fe.FormulaEngine3Phase("three", Quantity, (engines[0], engines[1], engines[2]))
    senders = [[c.new_sender() for c in cs] for cs in chans]
    out_rx = None
    spinning = False
    for ev in case["events"]:
        if ev[0] == "D":
            await senders[ev[1]][ev[2]].send(g.mk_sample(grid, ev[3], ev[4]))
            if len(ev) > 5 and not ev[5]:
                continue
        elif ev[0] == "attach":
            out_rx = engine.new_receiver(max_size=10000)
        elif ev[0] == "W":
            await g.wait_virtual(ev[1])
        if not await g.settle():
            spinning = True
    await g.settle()
    outs = []
    if out_rx is not None:
        while len(out_rx):
            s = out_rx.consume()
            outs.append([grid.us(s.timestamp), g.canon_value(s.value_p1), g.canon_value(s.value_p2),
                         g.canon_value(s.value_p3)])
    await engine._stop()  # pylint: disable=protected-access
    for e in engines:
        await e._stop()  # pylint: disable=protected-access
    return {"out_us": outs, "spinning": spinning}


# fallback kind of a term -> number of fallback component channels
FB_NONE, FB_FAKE, FB_REAL1, FB_REAL2 = 0, 1, 2, 3
FB_COMPONENTS = {FB_NONE: 0, FB_FAKE: 1, FB_REAL1: 1, FB_REAL2: 2}


def fb_output(kind: int, vals: list[Any]) -> Any:
    """The sample value the fallback source of a term emits for one tick, from the component values fed: the
    channel-backed `FallbackMetricFetcher` passes the value through; the real `FallbackFormulaMetricFetcher` runs a
    real FormulaEngine summing its components with nones_are_zeros (so it is never missing)."""
    if kind == FB_FAKE:
        return rat(Fraction(vals[0])) if g.is_valid(vals[0]) else None
    return rat(sum((Fraction(v) for v in vals[:FB_COMPONENTS[kind]] if g.is_valid(v)), Fraction(0)))


async def _run_fb(case: dict) -> dict:
    """Engine whose terms may have a fallback.  Besides the outputs, the completion of every `fetch_next()` is
    recorded in real order between the harness actions (the trace the Lean model replays)."""
    fe = g.import_engine()
    from frequenz.channels import Broadcast
    from frequenz.quantities import Quantity
    from frequenz.sdk.timeseries.formula_engine._formula_generators._fallback_formula_metric_fetcher import (
        FallbackFormulaMetricFetcher,
    )
    from frequenz.sdk.timeseries.formula_engine._formula_steps import FallbackMetricFetcher

    grid = g.Grid(case["t0us"], case["stepus"])
    n = case["n"]
    limit = case.get("cap", 50)
    chans_p = [Broadcast(name=f"p{i}") for i in range(n)]
    rxs = [c.new_receiver(limit=limit) for c in chans_p]
    chans_f = [[Broadcast(name=f"f{i}c{j}") for j in range(FB_COMPONENTS[case["fb"][i]])] for i in range(n)]
    trace: list[Any] = []
    fetched: list[Any] = []
    stopping: list[bool] = []

    class ChannelFallback(FallbackMetricFetcher):  # type: ignore[type-arg]
        """A `FallbackMetricFetcher` backed by a real channel: the receiver is created by start()."""

        def __init__(self, i: int) -> None:
            super().__init__()
            self._i = i
            self._rx = None

        @property
        def name(self) -> str:
            return f"fallback{self._i}"

        @property
        def is_running(self) -> bool:
            return self._rx is not None

        def start(self) -> None:
            self._rx = chans_f[self._i][0].new_receiver(limit=1000)

        async def ready(self) -> bool:
            assert self._rx is not None
            return await self._rx.ready()

        def consume(self):
            assert self._rx is not None
            return self._rx.consume()

    class Gen:
        """Stands in for a FormulaGenerator: a real FormulaEngine summing the fallback components (None = 0)."""

        def __init__(self, i: int) -> None:
            self.namespace = f"fallback{i}"
            self._i = i

        def generate(self):
            fb = fe.FormulaBuilder(self.namespace, Quantity)
            for j, c in enumerate(chans_f[self._i]):
                if j:
                    fb.push_oper("+")
                fb.push_metric(f"#f{self._i}c{j}", c.new_receiver(limit=1000), nones_are_zeros=True)
            return fb.build()

    fallbacks: list[Any] = []
    for i in range(n):
        kind = case["fb"][i]
        fallbacks.append(None if kind == FB_NONE else ChannelFallback(i) if kind == FB_FAKE
                         else FallbackFormulaMetricFetcher(Gen(i)))

    def record(fetcher, i: int) -> None:
        orig = fetcher.fetch_next

        async def fetch_next():
            r = await orig()
            if not stopping:
                trace.append(["fetch", i])
                fetched.append([i] + (["None"] if r is None else g.canon_sample(grid, r)))
            return r

        fetcher.fetch_next = fetch_next

    b = fe.FormulaBuilder("f", Quantity)
    for i in range(n):
        if i:
            b.push_oper("+")
        b.push_metric(f"#{i}", rxs[i], nones_are_zeros=case["nz"][i], fallback=fallbacks[i])
        record(b._metric_fetchers[f"#{i}"], i)  # pylint: disable=protected-access
    engine = b.build()
    senders_p = [c.new_sender() for c in chans_p]
    senders_f = [[c.new_sender() for c in cs] for cs in chans_f]
    out_rx = None
    spinning = False
    for ev in case["events"]:
        if ev[0] == "D":
            await senders_p[ev[1]].send(g.mk_sample(grid, ev[2], ev[3]))
            trace.append(["D", ev[1], ev[2], rat(Fraction(ev[3])) if g.is_valid(ev[3]) else None])
            if len(ev) > 4 and not ev[4]:
                continue
        elif ev[0] == "F":
            for j, s in enumerate(senders_f[ev[1]]):
                await s.send(g.mk_sample(grid, ev[2], ev[3][j]))
            trace.append(["F", ev[1], ev[2], fb_output(case["fb"][ev[1]], ev[3])])
            if len(ev) > 4 and not ev[4]:
                continue
        elif ev[0] == "attach":
            out_rx = engine.new_receiver(max_size=10000)
            trace.append(["attach"])
        elif ev[0] == "W":
            await g.wait_virtual(ev[1])
        if not await g.settle():
            spinning = True
        trace.append(["quiet"])
    if not await g.settle():
        spinning = True
    trace.append(["quiet"])
    outs = []
    if out_rx is not None:
        while len(out_rx):
            s = out_rx.consume()
            outs.append([grid.us(s.timestamp), g.canon_value(s.value)])
    stopping.append(True)
    await engine._stop()  # pylint: disable=protected-access
    for f in fallbacks:
        fb_engine = getattr(f, "_formula_engine", None)
        if fb_engine is not None:
            await fb_engine._stop()  # pylint: disable=protected-access
    return {"out_us": outs, "out2_us": [], "trace": trace, "fetched": fetched, "spinning": spinning}


def run_impl(case: dict, cap: int | None = None) -> dict:
    if case["kind"] == "single":
        return g.run_async(_run_single(case, cap, True))
    if case["kind"] == "fb":
        return g.run_async(_run_fb(case))
    return g.run_async(_run_3phase(case))


# ------------------------------------------------------------------------------------------ oracle
def formula(nz: list[bool], vals: list[Any]) -> Any:
    """Sum of the streams on exact rationals; missing counts as zero where nz, else makes the result missing."""
    tot = Fraction(0)
    for z, v in zip(nz, vals):
        if not g.is_valid(v):
            if not z:
                return None
        else:
            tot += Fraction(v)
    return rat(tot)


def stream_tables(events: list, key_len: int) -> dict:
    """(stream key) -> {tick: val} and first/last tick, from the fed samples only."""
    tab: dict[tuple, dict[int, Any]] = {}
    for ev in events:
        if ev[0] == "D":
            key = tuple(ev[1:1 + key_len])
            tab.setdefault(key, {})[ev[1 + key_len]] = ev[2 + key_len]
    return tab


def to_ticks(case: dict, out_us: list) -> list:
    t0, st = case["t0us"], case["stepus"]
    res = []
    for o in out_us:
        off = o[0] - t0
        res.append([off // st if off % st == 0 else {"offgrid": o[0]}] + o[1:])
    return res


def oracle_single(ctx: Ctx, case: dict, obs: dict) -> None:
    n, nz, st = case["n"], case["nz"], case["stepus"]
    tab = stream_tables(case["events"], 1)
    outs = obs["out_us"]

    def viol(clause: str, detail: str) -> None:
        ctx.violation(clause, case, {"detail": detail, "out_us": outs, "out2_us": obs["out2_us"]}, regime=None)

    attached = any(ev[0] == "attach" for ev in case["events"])
    if len(tab) < n or not attached:
        if outs:
            viol("first", "outputs although some stream never delivered / nobody attached")
        return
    first = {i: min(tab[(i,)]) for i in range(n)}
    last = {i: max(tab[(i,)]) for i in range(n)}
    t_first = max(first.values())
    t_last = min(last.values())
    expected_n = max(0, t_last - t_first + 1)
    ticks = to_ticks(case, outs)
    for r, (o, t) in enumerate(zip(outs, ticks)):
        tk = t[0]
        if not isinstance(tk, int):
            viol("step", f"output {r} off the input grid: {o[0]} us")
            return
        if r == 0 and tk != t_first:
            viol("first", f"first output stamped tick {tk}, expected max of the first ticks = {t_first}")
        if r > 0 and o[0] - outs[r - 1][0] != st:
            viol("step", f"outputs {r - 1},{r}: timestamps {outs[r - 1][0]} -> {o[0]} us, step is {st} us")
        vals = [tab[(i,)].get(tk, "absent") for i in range(n)]
        if "absent" in vals:
            viol("single-ts", f"output {r} stamped tick {tk} for which stream {vals.index('absent')} delivered nothing")
            continue
        exp = formula(nz, vals)
        if o[1] != exp:
            viol("single-ts", f"output {r} stamped tick {tk}: value {o[1]}, formula on the samples stamped {tk} = {exp}")
    if len(outs) != expected_n:
        viol("complete", f"{len(outs)} outputs, expected ticks {t_first}..{t_last} = {expected_n}")
    o2 = obs["out2_us"]
    if o2 and o2 != outs[len(outs) - len(o2):]:
        viol("suffix", "the second consumer did not see a contiguous suffix of the first consumer's sequence")


def fb_tables(case: dict) -> tuple[dict, dict]:
    """From the fed events only: primary samples {term: {tick: val}} and every sample the fallback source of a term
    emitted {term: {tick: canonical value}} (whether or not the lazily started receiver saw it)."""
    prim: dict[int, dict[int, Any]] = {}
    fbs: dict[int, dict[int, Any]] = {}
    for ev in case["events"]:
        if ev[0] == "D":
            prim.setdefault(ev[1], {})[ev[2]] = ev[3]
        elif ev[0] == "F":
            fbs.setdefault(ev[1], {})[ev[2]] = fb_output(case["fb"][ev[1]], ev[3])
    return prim, fbs


def fb_candidates(case: dict, prim: dict, fbs: dict, tk: int) -> set | None:
    """Every value the formula can have when each term uses a sample stamped `tk`: the primary sample stamped `tk`
    if it is valid, else the fallback sample stamped `tk` (if the term has a fallback and its source emitted one) or
    the invalid primary sample itself (C19's start-up window / fallback not there yet).  None = some primary has no
    sample stamped `tk`."""
    import itertools

    per_term: list[list[Any]] = []
    for i in range(case["n"]):
        if tk not in prim.get(i, {}):
            return None
        pv = prim[i][tk]
        if g.is_valid(pv):
            per_term.append([Fraction(pv)])
        else:
            c: list[Any] = [None]
            if case["fb"][i] != FB_NONE and tk in fbs.get(i, {}):
                fv = fbs[i][tk]
                if fv is not None and Fraction(fv) not in c:
                    c.append(Fraction(fv))
            per_term.append(c)
    res = set()
    for combo in itertools.product(*per_term):
        tot: Any = Fraction(0)
        for z, v in zip(case["nz"], combo):
            if v is None:
                if not z:
                    tot = None
                    break
            else:
                tot += v
        res.add(None if tot is None else rat(tot))
    return res


def oracle_fb(ctx: Ctx, case: dict, obs: dict) -> None:
    n, st = case["n"], case["stepus"]
    prim, fbs = fb_tables(case)
    outs = obs["out_us"]

    def viol(clause: str, detail: str) -> None:
        ctx.violation(clause, case, {"detail": detail, "out_us": outs, "fetched": obs["fetched"]}, regime=None)

    attached = any(ev[0] == "attach" for ev in case["events"])
    if len(prim) < n or not attached:
        if outs:
            viol("first", "outputs although some stream never delivered / nobody attached")
        return
    t_first = max(min(prim[i]) for i in range(n))
    t_last = min(max(prim[i]) for i in range(n))
    ticks = to_ticks(case, outs)
    emitted = set()
    for r, (o, t) in enumerate(zip(outs, ticks)):
        tk = t[0]
        if not isinstance(tk, int):
            viol("step", f"output {r} off the input grid: {o[0]} us")
            return
        emitted.add(tk)
        if r == 0 and tk != t_first:
            viol("first", f"first output stamped tick {tk}, expected max of the first ticks = {t_first}")
        if r > 0 and o[0] - outs[r - 1][0] != st:
            viol("step", f"outputs {r - 1},{r}: timestamps {outs[r - 1][0]} -> {o[0]} us, step is {st} us")
        cands = fb_candidates(case, prim, fbs, tk)
        if cands is None:
            viol("single-ts", f"output {r} stamped tick {tk} for which some primary stream delivered nothing")
        elif o[1] not in cands:
            viol("single-ts", f"output {r} stamped tick {tk}: value {o[1]} is not the formula on samples stamped {tk} "
                              f"(primary if valid, else fallback or missing): {sorted(cands, key=str)}")
    # complete: until a term with a fallback has seen its first invalid primary sample no fallback is running, so
    # every tick up to (and including) that one must be emitted once all primaries have it
    r_min = min([tk for i in range(n) if case["fb"][i] != FB_NONE for tk, v in prim[i].items() if not g.is_valid(v)],
                default=t_last)
    for tk in range(t_first, min(t_last, r_min) + 1):
        if tk not in emitted:
            viol("complete", f"tick {tk} not emitted although all primaries delivered it and no fallback was running")
            break


def phase_starts(case: dict) -> list[int | None]:
    tab = stream_tables(case["events"], 2)
    res: list[int | None] = []
    for p, ph in enumerate(case["phases"]):
        firsts = [min(tab[(p, i)]) if (p, i) in tab else None for i in range(ph["n"])]
        res.append(None if None in firsts else max(firsts))  # type: ignore[type-var]
    return res


def different_start(case: dict) -> bool:
    s = phase_starts(case)
    return None not in s and len(set(s)) > 1


def oracle_3phase(ctx: Ctx, case: dict, obs: dict) -> None:
    st = case["stepus"]
    tab = stream_tables(case["events"], 2)
    outs = obs["out_us"]

    def viol(clause: str, detail: str) -> None:
        ctx.violation(clause, case, {"detail": detail, "out_us": outs, "phase_starts": phase_starts(case)}, regime=None)

    starts = phase_starts(case)
    attached = any(ev[0] == "attach" for ev in case["events"])
    if None in starts or not attached:
        if outs:
            viol("first", "outputs although some stream never delivered / nobody attached")
        return
    lasts = [min(max(tab[(p, i)]) for i in range(ph["n"])) for p, ph in enumerate(case["phases"])]
    t_first = max(starts)  # type: ignore[type-var]
    t_last = min(lasts)
    ticks = to_ticks(case, outs)
    for r, (o, t) in enumerate(zip(outs, ticks)):
        tk = t[0]
        if not isinstance(tk, int):
            viol("step", f"output {r} off the input grid")
            return
        if r == 0 and tk != t_first:
            viol("first", f"first output stamped tick {tk}, expected {t_first} (all inputs available)")
        if r > 0 and o[0] - outs[r - 1][0] != st:
            viol("step", f"outputs {r - 1},{r}: {outs[r - 1][0]} -> {o[0]} us, step is {st} us")
        for p, ph in enumerate(case["phases"]):
            vals = [tab[(p, i)].get(tk, "absent") for i in range(ph["n"])]
            exp = "absent" if "absent" in vals else formula(ph["nz"], vals)
            if o[1 + p] != exp:
                viol("single-ts", f"output {r} stamped tick {tk}: phase {p + 1} value {o[1 + p]}, formula on the "
                                  f"phase-{p + 1} samples stamped {tk} = {exp}")
                break
    exp_n = max(0, t_last - t_first + 1)
    if len(outs) != exp_n:
        viol("complete", f"{len(outs)} outputs, expected ticks {t_first}..{t_last} = {exp_n}")


# ------------------------------------------------------------------------------------------ the model's view
def model_case(case: dict, obs: dict | None = None) -> dict:
    if case["kind"] == "fb":
        assert obs is not None
        return {"kind": "fb", "n": case["n"], "nz": case["nz"], "fb": [k != FB_NONE for k in case["fb"]],
                "events": obs["trace"]}
    if case["kind"] == "single":
        evs = []
        for ev in case["events"]:
            if ev[0] == "D":
                evs.append(["D", ev[1], ev[2], ev[3] if g.is_valid(ev[3]) else None])
            elif ev[0] == "attach":
                evs.append(["attach"])
        return {"kind": "single", "n": case["n"], "nz": case["nz"], "events": evs}
    evs = []
    for ev in case["events"]:
        if ev[0] == "D":
            evs.append(["D", ev[1], ev[2], ev[3], ev[4] if g.is_valid(ev[4]) else None])
        elif ev[0] == "attach":
            evs.append(["attach"])
    return {"kind": "3phase", "phases": case["phases"], "events": evs}


def impl_out(case: dict, obs: dict) -> dict:
    if case["kind"] == "fb":
        return {"out": to_ticks(case, obs["out_us"]), "fetched": obs["fetched"], "bad": []}
    return {"out": to_ticks(case, obs["out_us"])}


# ------------------------------------------------------------------------------------------ generators
def gen_values(rng, i: int, t0: int, length: int) -> list[Any]:
    vals = []
    bad = False
    for k in range(length):
        if rng.random() < 0.15:
            bad = not bad
        vals.append(rng.choice([None, None, "nan", "inf"]) if bad else (t0 + k + 1) * 32 ** (i % 4))
    return vals


def merge(rng, seqs: list[list[Any]]) -> list[Any]:
    style = rng.random()
    if style < 0.25:  # round robin, tick by tick
        out = []
        idx = [0] * len(seqs)
        while any(idx[i] < len(s) for i, s in enumerate(seqs)):
            order = list(range(len(seqs)))
            rng.shuffle(order)
            for i in order:
                if idx[i] < len(seqs[i]):
                    out.append(seqs[i][idx[i]])
                    idx[i] += 1
        return out
    if style < 0.45:  # one stream runs far ahead, the others follow
        order = list(range(len(seqs)))
        rng.shuffle(order)
        head = seqs[order[0]]
        k = rng.randint(1, len(head)) if head else 0
        return head[:k] + g.interleave(rng, [head[k:]] + [seqs[i] for i in order[1:]], burst=0.5)
    return g.interleave(rng, seqs, burst=rng.choice([0.1, 0.5, 0.85]))


WAITS = [1, 29, 30, 31, 31, 45, 600, 7200, 90000]


def add_waits(rng, evs: list[Any]) -> list[Any]:
    """Insert 1-3 time gaps: mostly between two deliveries of DIFFERENT streams (one stream lagging in event-loop
    time), after the attach as well as before it."""
    def stream(e):
        return tuple(e[:-3]) if e[0] in ("D", "F") else None

    cuts = [k for k in range(1, len(evs)) if stream(evs[k - 1]) is not None and stream(evs[k]) is not None
            and stream(evs[k - 1]) != stream(evs[k])]
    for _ in range(rng.choice([1, 1, 2, 3])):
        k = rng.choice(cuts) if cuts and rng.random() < 0.8 else rng.randint(0, len(evs))
        evs = evs[:k] + [["W", rng.choice(WAITS)]] + evs[k:]
        cuts = [c + 1 if c >= k else c for c in cuts]
    return evs


def with_gaps(rng, case: dict, p: float = 0.3) -> dict:
    if rng.random() < p:
        case["events"] = add_waits(rng, case["events"])
    return case


def gap_tags(case: dict) -> list[str]:
    ws = [e[1] for e in case["events"] if e[0] == "W"]
    if not ws:
        return []
    att = [e[0] for e in case["events"]].index("attach") if ["attach"] in case["events"] else len(case["events"])
    after = any(e[0] == "W" and k > att for k, e in enumerate(case["events"]))
    return ["time-gap:" + ("<=30s" if max(ws) <= 30 else "31s-1min" if max(ws) <= 60 else ">=10min"),
            "time-gap:" + ("while-running" if after else "before-attach")]


def exhaustive_gap_cases():
    """2-3 streams fed round-robin for 4 ticks, consumer attached first or after tick 0; one time gap of 29 s / 31 s /
    10 min at every position of the schedule (the lagging stream is whichever comes next)."""
    import itertools

    for n, wait, att in itertools.product((2, 3), (29, 31, 600), (0, 1)):
        for order in itertools.permutations(range(n)):
            base = []
            for t in range(4):
                if t == att:
                    base.append(["attach"])
                base += [["D", i, t, (t + 1) * 32 ** i, 1] for i in order]
            for k in range(1, len(base) + 1):
                yield {"kind": "single", "n": n, "nz": [False] * n, "t0us": 0, "stepus": 1_000_000, "cap": 50,
                       "events": base[:k] + [["W", wait]] + base[k:]}


def gen_single(rng, small: bool = False) -> dict:
    n = rng.choice([1, 2, 2, 3, 3, 4])
    base = rng.choice([0, 0, 2, 5])
    t0s = [base + rng.choice([0, 0, 1, 2, 3]) for _ in range(n)]
    length = rng.randint(2, 5 if small else 10)
    seqs = []
    for i in range(n):
        li = max(1, length + rng.choice([0, 0, -1, 1, 2]))
        vals = gen_values(rng, i, t0s[i], li)
        seqs.append([["D", i, t0s[i] + k, v, 0 if rng.random() < 0.2 else 1] for k, v in enumerate(vals)])
    evs = merge(rng, seqs)
    evs.insert(rng.choice([0, 0, rng.randint(0, len(evs)), len(evs)]), ["attach"])
    if rng.random() < 0.25:
        pos = evs.index(["attach"])
        evs.insert(rng.randint(pos + 1, len(evs)), ["attach2"])
    return {"kind": "single", "n": n, "nz": [rng.random() < 0.5 for _ in range(n)],
            "t0us": rng.choice([0, 500_000, 123_456_789]), "stepus": rng.choice([1_000_000, 200_000, 1, 7_000_000]),
            "cap": 50, "events": evs}


def gen_3phase(rng, small: bool = False) -> dict:
    base = rng.choice([0, 1, 4])
    same_start = rng.random() < 0.6
    phases = []
    seqs = []
    common = base + rng.choice([0, 1, 2])
    length = rng.randint(2, 4 if small else 8)
    for p in range(3):
        n = rng.choice([1, 1, 2])
        phases.append({"n": n, "nz": [rng.random() < 0.5 for _ in range(n)]})
        top = common if same_start else base + rng.choice([0, 1, 2, 3])
        t0s = [top] + [top - rng.choice([0, 0, 1, 2]) for _ in range(n - 1)]
        rng.shuffle(t0s)
        for i in range(n):
            li = length + (top - t0s[i]) + rng.choice([0, 0, 1])
            vals = gen_values(rng, 2 * p + i, t0s[i], li)
            vals = [v if not g.is_valid(v) else (t0s[i] + k + 1) * 32 ** i + 100000 * (p + 1) for k, v in enumerate(vals)]
            seqs.append([["D", p, i, t0s[i] + k, v, 0 if rng.random() < 0.15 else 1] for k, v in enumerate(vals)])
    evs = merge(rng, seqs)
    evs.insert(rng.choice([0, 0, rng.randint(0, len(evs)), len(evs)]), ["attach"])
    return {"kind": "3phase", "phases": phases, "t0us": rng.choice([0, 250_000]),
            "stepus": rng.choice([1_000_000, 200_000, 3]), "cap": 50, "events": evs}


def fb_layout(kinds: list[int]) -> list[list[int]]:
    """Digit positions (base 256) of the value encoding: per term [primary, fallback component…].  A sample of the
    stream at position p stamped tick t has the value (t+1)*256**p, so every sum reveals which (stream, tick)s went in."""
    pos = 0
    lay = []
    for k in kinds:
        lay.append(list(range(pos, pos + 1 + FB_COMPONENTS[k])))
        pos += 1 + FB_COMPONENTS[k]
    return lay


def fb_val(pos: int, tick: int) -> int:
    return (tick + 1) * 256 ** pos


def gen_fb(rng, small: bool = False) -> dict:
    """Engine with 1-3 terms, at least one with a fallback (channel-backed FallbackMetricFetcher or the real
    FallbackFormulaMetricFetcher over 1-2 component channels)."""
    while True:
        n = rng.choice([1, 2, 2, 2, 3])
        kinds = [rng.choice([FB_NONE, FB_FAKE, FB_FAKE, FB_REAL1, FB_REAL2]) for _ in range(n)]
        if any(kinds) and sum(1 + FB_COMPONENTS[k] for k in kinds) <= 6:
            break
    lay = fb_layout(kinds)
    base = rng.choice([2, 2, 5])
    same = rng.random() < 0.5
    t0s = [base + (0 if same else rng.choice([0, 0, 1, 2, 3])) for _ in range(n)]
    length = rng.randint(3, 6 if small else 11)
    hi = max(t0s) + length  # exclusive last tick (about)
    seqs: list[list[Any]] = []
    p_seqs: list[list[Any]] = []
    f_seqs: list[list[Any]] = []
    for i in range(n):
        # primary: runs of valid / invalid samples; terms with a fallback fail more often
        flip = 0.3 if kinds[i] else 0.1
        bad = rng.random() < (0.25 if kinds[i] else 0.05)
        ps = []
        for t in range(t0s[i], hi + rng.choice([0, 0, 1])):
            if rng.random() < flip:
                bad = not bad
            v = rng.choice([None, None, "nan", "inf"]) if bad else fb_val(lay[i][0], t)
            ps.append(["D", i, t, v, 0 if rng.random() < 0.15 else 1])
        p_seqs.append(ps)
        fs = []
        if kinds[i]:
            # the fallback source is its own gap-free stream; where it starts relative to the primary is free
            g0 = max(0, t0s[i] + rng.choice([-2, -1, 0, 0, 0, 1, 2, 4]))
            fbad = False
            for t in range(g0, hi + rng.choice([0, 1, 3])):
                if rng.random() < 0.15:
                    fbad = not fbad
                comps = []
                for pos in lay[i][1:]:
                    comps.append(rng.choice([None, "nan"]) if (fbad and rng.random() < 0.7) else fb_val(pos, t))
                fs.append(["F", i, t, comps, 0 if rng.random() < 0.1 else 1])
        f_seqs.append(fs)
    style = rng.random()
    if style < 0.45:
        # wall-clock style: at clock tick t stream s delivers its tick t - lag_s (a lagging term keeps the engine
        # behind; a fallback started while the engine works through the backlog first sees a LATER tick)
        lag_p = [rng.choice([0, 0, 0, 1, 2, 4]) for _ in range(n)]
        lag_f = [rng.choice([0, 0, 0, 1, -1, 2]) for _ in range(n)]
        evs: list[Any] = []
        idx_p = [0] * n
        idx_f = [0] * n
        for t in range(0, hi + 10):
            group = []
            for i in range(n):
                while idx_p[i] < len(p_seqs[i]) and p_seqs[i][idx_p[i]][2] <= t - lag_p[i]:
                    group.append([p_seqs[i][idx_p[i]]])
                    idx_p[i] += 1
                while idx_f[i] < len(f_seqs[i]) and f_seqs[i][idx_f[i]][2] <= t - lag_f[i]:
                    group.append([f_seqs[i][idx_f[i]]])
                    idx_f[i] += 1
            # several events of one stream in a group keep their order: merge them per stream first
            by: dict[tuple, list] = {}
            for [e] in group:
                by.setdefault((e[0], e[1]), []).append(e)
            evs += g.interleave(rng, list(by.values()), burst=0.2)
        pos = rng.choice([0, 0, rng.randint(0, len(evs)), rng.randint(0, len(evs)), len(evs)])
        evs.insert(pos, ["attach"])
    elif style < 0.65:
        # backlog: the primaries deliver a burst before the consumer attaches; fallback sources follow
        k = rng.randint(2, length)
        head = merge(rng, [s[:k] for s in p_seqs])
        tail = g.interleave(rng, [s[k:] for s in p_seqs] + f_seqs, burst=rng.choice([0.2, 0.5, 0.8]))
        early = rng.randint(0, 3)
        pre_f = []
        for fs in f_seqs:  # part of a fallback source's stream may be emitted before anybody listens
            cut = min(early, len(fs))
            pre_f.append(fs[:cut])
        if early:
            tail = g.interleave(rng, [s[k:] for s in p_seqs] + [fs[len(pf):] for fs, pf in zip(f_seqs, pre_f)],
                                burst=rng.choice([0.2, 0.5, 0.8]))
            head = g.interleave(rng, [head] + pre_f, burst=0.5)
        evs = head + [["attach"]] + tail
    else:
        evs = merge(rng, p_seqs + f_seqs)
        evs.insert(rng.choice([0, 0, rng.randint(0, len(evs)), len(evs)]), ["attach"])
    return {"kind": "fb", "n": n, "nz": [rng.random() < 0.6 for _ in range(n)], "fb": kinds,
            "t0us": rng.choice([0, 500_000, 123_456_789]), "stepus": rng.choice([1_000_000, 200_000, 1, 7_000_000]),
            "cap": 50, "events": evs}


def exhaustive_fb_cases():
    """`#a + #b`, `#a` with a channel-backed fallback; 4 ticks; every valid/invalid pattern of `#a` (first sample
    valid or not), fallback source starting at tick 0..3 and emitted in wall-clock step with lag -1..2, `#b` lagging
    0..2 ticks, consumer attached first or after a backlog of 2 ticks."""
    import itertools

    lay = fb_layout([FB_FAKE, FB_NONE])
    for pat in itertools.product("vm", repeat=4):
        for g0 in range(4):
            for flag in (-1, 0, 1, 2):
                for lag in (0, 1, 2):
                    for att in (0, 2):
                        evs: list[Any] = []
                        for t in range(-1, 9):
                            if t == att:
                                evs.append(["attach"])
                            if 0 <= t < 4:
                                evs.append(["D", 0, t, fb_val(lay[0][0], t) if pat[t] == "v" else None, 1])
                            if g0 <= t - flag < 6:
                                evs.append(["F", 0, t - flag, [fb_val(lay[0][1], t - flag)], 1])
                            if 0 <= t - lag < 4:
                                evs.append(["D", 1, t - lag, fb_val(lay[1][0], t - lag), 1])
                        yield {"kind": "fb", "n": 2, "nz": [True, False], "fb": [FB_FAKE, FB_NONE], "t0us": 0,
                               "stepus": 1_000_000, "cap": 50, "events": evs}


def exhaustive_cases():
    """2 streams, first ticks 0..2, 4 deliveries each: every interleaving, consumer attached first or last."""
    for off in (0, 1, 2):
        a = [["D", 0, k, (k + 1)] for k in range(4)]
        bb = [["D", 1, off + k, (off + k + 1) * 32] for k in range(4)]
        for inter in g.all_interleavings([a, bb]):
            for pos in (0, len(inter)):
                evs = list(inter)
                evs.insert(pos, ["attach"])
                yield {"kind": "single", "n": 2, "nz": [False, False], "t0us": 0, "stepus": 1_000_000, "cap": 50,
                       "events": evs}


# ------------------------------------------------------------------------------------------ entry points
def tags_of(case: dict) -> tuple[list[str], bool]:
    if case["kind"] == "single":
        tab = stream_tables(case["events"], 1)
        firsts = {min(v) for v in tab.values()}
        tags = ["single", f"streams:{case['n']}"]
        pos = [e[0] for e in case["events"]].index("attach")
        tags.append("attach:" + ("first" if pos == 0 else "last" if pos == len(case["events"]) - 1 else "middle"))
        if len(firsts) > 1:
            tags.append("different-start")
        if any(e[0] == "D" and len(e) > 4 and not e[4] for e in case["events"]):
            tags.append("burst-without-yield")
        if any(e[0] == "attach2" for e in case["events"]):
            tags.append("second-consumer")
        # lag: largest difference of delivered counts between two streams at any point
        cnt = [0] * case["n"]
        lag = 0
        for e in case["events"]:
            if e[0] == "D":
                cnt[e[1]] += 1
                lag = max(lag, max(cnt) - min(cnt))
        tags.append("lag:" + ("0-1" if lag <= 1 else "2-3" if lag <= 3 else ">=4"))
        return tags, case["n"] >= 2 and (len(firsts) > 1 or lag >= 2)
    tags = ["3phase", "3phase:" + ("different-start" if different_start(case) else "same-start")]
    return tags, True


def tags_fb(case: dict, obs: dict) -> tuple[list[str], bool]:
    """Distribution evidence of the fallback family (read off the observed trace; not used by the oracle)."""
    names = {FB_FAKE: "channel", FB_REAL1: "real1", FB_REAL2: "real2"}
    tags = ["fb", f"fb-terms:{case['n']}"] + sorted({"fb-kind:" + names[k] for k in case["fb"] if k})
    prim, _ = fb_tables(case)
    if len({min(v) for v in prim.values()}) > 1:
        tags.append("fb:different-start")
    pos = [e[0] for e in case["events"]].index("attach")
    tags.append("fb-attach:" + ("first" if pos == 0 else "last" if pos == len(case["events"]) - 1 else "middle"))
    nontrivial = False
    fetch_no = 0
    started: dict[int, tuple[int, int]] = {}  # term -> (trace index of the fetch that started the fallback, its tick)
    for idx, ev in enumerate(obs["trace"]):
        if ev[0] == "fetch":
            rec = obs["fetched"][fetch_no]
            fetch_no += 1
            i = ev[1]
            if case["fb"][i] and i not in started and len(rec) == 3 and rec[2] is None:
                started[i] = (idx, rec[1])
    for i, (idx, tick) in started.items():
        first_seen = next((ev[2] for ev in obs["trace"][idx + 1:] if ev[0] == "F" and ev[1] == i), None)
        if first_seen is None:
            tags.append("fb-first-sample:never")
            continue
        nontrivial = True
        d = first_seen - (tick + 1)
        tags.append("fb-first-sample:" + ("earlier" if d < 0 else "same-tick" if d == 0 else "later") +
                    "-than-next-primary")
        vals = [prim[i][t] for t in sorted(prim[i]) if t > tick]
        if any(g.is_valid(v) for v in vals):
            tags.append("fb:primary-recovers")
        if d > 0 and vals and not g.is_valid(vals[0]):
            tags.append("fb:invalid-primary-behind-fallback")
    if not started:
        tags.append("fb:never-started")
    return tags, nontrivial


def check_case(ctx: Ctx, case: dict, tight: bool = False) -> tuple[dict, dict]:
    obs = run_impl(case)
    if case["kind"] == "fb":
        oracle_fb(ctx, case, obs)
        tags, nontrivial = tags_fb(case, obs)
        if obs.get("spinning"):
            tags.append("engine-spinning")
        ctx.case(case, tags=tags + gap_tags(case), nontrivial=nontrivial)
        return model_case(case, obs), impl_out(case, obs)
    tags, nontrivial = tags_of(case)
    if case["kind"] == "single":
        oracle_single(ctx, case, obs)
        if tight and obs["backlog"] >= 1:
            obs2 = run_impl(case, cap=obs["backlog"])
            tags.append("capacity-tight-rerun")
            if obs2["out_us"] != obs["out_us"]:
                ctx.violation("capacity", case, {"detail": f"limit={obs['backlog']} (backlog bound) changes the output",
                                                 "out_us": obs["out_us"], "tight_out_us": obs2["out_us"]})
    else:
        oracle_3phase(ctx, case, obs)
    if obs.get("spinning"):
        tags.append("engine-spinning")
    ctx.case(case, tags=tags + gap_tags(case), nontrivial=nontrivial)
    return model_case(case), impl_out(case, obs)


def run(ctx: Ctx) -> None:
    python_flags()
    ctx.rule = RULE
    n = ctx.budget(3000, 40000)
    cases, outs = [], []
    for case in g.load_corpus("C06"):
        m, o = check_case(ctx, case, tight=True)
        cases.append(m)
        outs.append(o)
    for i in range(n):
        rng = ctx.subrng("case", i)
        case = gen_3phase(rng, small=i % 2 == 0) if i % 4 == 3 else gen_single(rng, small=i % 3 == 0)
        case = with_gaps(rng, case)
        m, o = check_case(ctx, case, tight=(i % 5 == 0))
        cases.append(m)
        outs.append(o)
    for i in range(ctx.budget(2000, 20000)):
        rng = ctx.subrng("fb", i)
        m, o = check_case(ctx, with_gaps(rng, gen_fb(rng, small=i % 3 == 0)))
        cases.append(m)
        outs.append(o)
    if ctx.tier == "thorough":
        for case in exhaustive_cases():
            m, o = check_case(ctx, case)
            cases.append(m)
            outs.append(o)
        for case in exhaustive_fb_cases():
            m, o = check_case(ctx, case)
            cases.append(m)
            outs.append(o)
        for case in exhaustive_gap_cases():
            m, o = check_case(ctx, case)
            cases.append(m)
            outs.append(o)
    ctx.compare("Evaluator", cases, outs, what="engine outputs (tick, value)")

    from . import datapath  # full-stack stage: the same property through the real sourcing -> resampling -> formula stack
    datapath.run_stage(ctx, {"C06-single-ts"}, n_quick=40, n_thorough=600)


def replay(ctx: Ctx, data: dict) -> None:
    python_flags()
    case = data.get("case")
    if not case or "events" not in case:
        return run(ctx)
    m, o = check_case(ctx, case, tight=True)
    ctx.compare("Evaluator", [m], [o], what="engine outputs (tick, value)")
