"""C14 — power requests for a component group are applied one at a time, latest wins.

The REAL `PowerDistributingActor` is driven on a virtual-time loop with a probe component manager (see
`distributor_gen.py`).  A case is a schedule of harness actions (send a request / let the in-flight
distribution finish normally or by raising / let virtual time pass), with or without yielding to the event
loop between actions, so that arrivals overlap, overwrite each other and race with completion callbacks.

A request is a `Request` OBJECT: the script gives each one an identity `r` and its fields (`p` W, `adj` =
adjust_power, component set = its group); different requests may ask for the same power or be equal in every
field.  "The request that was processed" is what the probe's `distribute_power` received: which object (by `is`,
never by content) and the fields read off it.

Oracle (from what the probe and the observed receiver saw; independent of the Lean model):
  mutex       : never two `distribute_power` calls of one group between enter and exit;
  latest-wins : per group, the calls entered are exactly: a request that arrived while nothing of the group
                was in flight, and — at each completion, ok or exception alike — the most recent request that
                arrived since the in-flight one was started (nothing if none arrived); each at the virtual
                instant of its cause (immediately).  "Exactly" = the same request object, carrying the
                fields (power, adjust_power) it was sent with — whatever the other waiting requests ask for;
  applied     : once everything has finished, the last request that arrived for each group is the last one
                processed, and the actor holds no task and no pending request;
  subsequence : the processed requests of a group are a subsequence of its arrivals;
  independent : (sampled, schedules that yield after every action) the actions of a group, replayed alone on
                a fresh actor, give the same arrive/enter/exit/done sequence for that group.
Correspondence: the observed linearisation (arrivals as the actor consumes them, completions as the done
callbacks run) is fed to the Lean model; its `start` outputs, state snapshots at every quiescent point and
final in-flight counts must equal the enters, the actor's `_processing_tasks` / `_pending_requests` and the
probe's counts.
"""
from __future__ import annotations

import json
import pathlib

from . import distributor_gen as g
from .common import Ctx, python_flags

RULE = ("schedules of 3-14 send/finish/sleep actions over 1-3 component groups (incl. overlapping sets), each "
        "action with or without yielding to the loop, instant/slow/failing completions; every request is an object "
        "with an identity and fields (power from a 5-value pool or repeated from the previous request of the group, "
        "adjust_power), so waiting requests of equal power / equal content but different identity are frequent; "
        "non-trivial = some request arrived while another of its group was in flight; thorough adds ALL admissible "
        "event sequences of length 7 over 2 groups and of length 5 over 3 groups (every prefix is checked on the way; "
        "fields drawn from 2 powers x 2 flags); distinct by canonical JSON hash")


def oracle(ctx: Ctx, script: dict, obs: dict) -> set[str]:
    tags: set[str] = set()
    n = len(script["groups"])
    log = obs["log"]
    # the requests as the script created them: identity -> (group, power, adjust_power)
    sent = {a["r"]: (a["g"], g.send_power(a), g.send_adjust(a)) for a in script["actions"] if a["a"] == "send"}
    inflight: list[int | None] = [None] * n
    waiting: list[list[int]] = [[] for _ in range(n)]
    expected: list[list[tuple[int, int]]] = [[] for _ in range(n)]  # (request, time of its cause)
    arrivals: list[list[int]] = [[] for _ in range(n)]
    enters: list[list[tuple[int, int]]] = [[] for _ in range(n)]
    running = [0] * n

    def bad(clause: str, why: str, i: int) -> None:
        ctx.violation(clause, script, {"why": why, "at": i, "log": log})

    def same_object_and_fields(kind: str, i: int, grp: int, r: int, p: int, adj: bool) -> None:
        if r not in sent:
            bad("latest-wins", f"group {grp}: {kind} of a request object that was never sent "
                               f"(power {p}, adjust_power {adj})", i)
        elif sent[r] != (grp, p, adj):
            bad("latest-wins", f"group {grp}: {kind} of request {r} with (group, power, adjust_power) = "
                               f"{(grp, p, adj)}, it was sent as {sent[r]}", i)

    for i, e in enumerate(log):
        kind, grp, r = e[0], e[1], e[2]
        t = e[-1]
        if kind == "arrive":
            same_object_and_fields("arrival", i, grp, r, e[3], e[4])
            arrivals[grp].append(r)
            if inflight[grp] is None:
                inflight[grp] = r
                expected[grp].append((r, t))
            else:
                for w in waiting[grp]:
                    if w in sent and sent[w][1] == e[3]:
                        tags.add("equal-content-waiting" if sent[w][2] == e[4] else "equal-power-other-flag-waiting")
                waiting[grp].append(r)
                tags.add("coalesced" if len(waiting[grp]) > 1 else "waited")
        elif kind == "enter":
            running[grp] += 1
            if running[grp] > 1:
                bad("mutex", f"group {grp}: request {r} entered while another one is being processed", i)
            same_object_and_fields("processing", i, grp, r, e[3], e[4])
            enters[grp].append((r, t))
        elif kind == "exit":
            running[grp] -= 1
        elif kind == "done":
            if inflight[grp] != r:
                bad("latest-wins", f"group {grp}: completion of {r} but {inflight[grp]} should be in flight", i)
            if e[3] == "exc":
                tags.add("failed-task")
            if waiting[grp]:
                inflight[grp] = waiting[grp][-1]
                expected[grp].append((waiting[grp][-1], t))
                waiting[grp] = []
                tags.add("pending-started-after-exc" if e[3] == "exc" else "pending-started-after-ok")
            else:
                inflight[grp] = None

    def show(rs: list[tuple[int, int]]) -> list:
        return [[r, *sent.get(r, (None, None, None))[1:]] for r, _ in rs]

    for grp in range(n):
        if [r for r, _ in enters[grp]] != [r for r, _ in expected[grp]]:
            bad("latest-wins", f"group {grp}: processed [request, power, adjust_power] {show(enters[grp])}, "
                               f"the property requires {show(expected[grp])}", len(log))
        elif any(te != tc for (_, te), (_, tc) in zip(enters[grp], expected[grp])):
            bad("latest-wins", f"group {grp}: a request was not started at the instant of its cause", len(log))
        if arrivals[grp] and (not enters[grp] or enters[grp][-1][0] != arrivals[grp][-1]):
            bad("eventually-applied", f"group {grp}: last arrival {arrivals[grp][-1]} was never processed last "
                                      f"(processed {[r for r, _ in enters[grp]]})", len(log))
        it = iter(arrivals[grp])
        if not all(any(a == r for a in it) for r, _ in enters[grp]):
            bad("subsequence", f"group {grp}: processed {[r for r, _ in enters[grp]]} is not a subsequence of "
                               f"the arrivals {arrivals[grp]}", len(log))
        if running[grp] != 0 or inflight[grp] is not None:
            bad("eventually-applied", f"group {grp}: something is still in flight after the flush", len(log))
    last = obs["snaps"][-1]
    if any(x is not None for x in last["processing"]) or any(x is not None for x in last["pending"]) \
            or obs["left_registered"]:
        bad("eventually-applied", "the actor still holds a task or a pending request after everything finished", len(log))
    if any(v > 1 for v in obs["max_running"].values()):
        bad("mutex", "two distributions of one group ran concurrently", len(log))
    if n > 1:
        tags.add("multi-group")
    if any(not a.get("drain", True) for a in script["actions"]):
        tags.add("no-yield")
    return tags


def project(log: list, grp: int) -> list:
    return [e[:-1] for e in log if e[1] == grp]


def check_script(ctx: Ctx, script: dict, independence: bool) -> tuple[dict, dict]:
    obs = g.run_actor_script(script)
    tags = oracle(ctx, script, obs)
    # (only for schedules that yield after every action: inside an un-yielded burst the order in which the loop
    # runs the ready tasks — not part of the property — decides whether an arrival or a completion comes first)
    if independence and len(script["groups"]) > 1 and all(a.get("drain", True) for a in script["actions"]):
        for grp in range(len(script["groups"])):
            alone = g.run_actor_script(g.restrict_script(script, grp))
            if project(alone["log"], grp) != project(obs["log"], grp):
                ctx.violation("independent", script, {"group": grp, "alone": project(alone["log"], grp),
                                                      "together": project(obs["log"], grp)})
        tags.add("independence-checked")
    nontrivial = bool(tags & {"waited", "coalesced"})
    ctx.case(script, tags=sorted(tags), nontrivial=nontrivial)
    return g.model_case_from_log(script, obs)


def load_corpus() -> list[dict]:
    d = pathlib.Path(__file__).resolve().parent.parent / "corpus" / "C14"
    return [json.loads(p.read_text()) for p in sorted(d.glob("*.json"))] if d.exists() else []


def run(ctx: Ctx) -> None:
    python_flags()
    ctx.rule = RULE
    cases, impls = [], []

    def add(script: dict, independence: bool) -> None:
        c, i = check_script(ctx, script, independence)
        cases.append(c)
        impls.append(i)

    for script in load_corpus():
        add(script, True)
    n = ctx.budget(600, 12000)
    for k in range(n):
        rng = ctx.subrng("script", k)
        script = g.gen_actor_script(rng, rng.choice([1, 2, 2, 3]), rng.randint(3, 14))
        add(script, independence=True)
    # bounded-exhaustive: quick = all sequences of length 4 over 2 groups, thorough = length 7
    length = 4 if ctx.tier == "quick" else 7
    for script in g.enum_actor_scripts(2, length):
        add(script, independence=True)
    scope = f"all admissible event sequences of length {length} over 2 groups"
    if ctx.tier == "thorough":
        for script in g.enum_actor_scripts(3, 5):
            add(script, independence=True)
        scope += " and of length 5 over 3 groups"
    ctx.extra["exhaustive_scope"] = scope
    ctx.compare("Distributor", cases, impls, what="start outputs / state snapshots / in-flight counts")


def replay(ctx: Ctx, data: dict) -> None:
    python_flags()
    case = data.get("case")
    if not case or "actions" not in case:
        return run(ctx)
    c, i = check_script(ctx, case, True)
    ctx.compare("Distributor", [c], [i])
