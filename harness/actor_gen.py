"""C10 — case generator and REAL-code runner (probe `Actor` on an `async_solipsism` loop).

A case (all times integer µs, see `lean/Drivers/Actor.lean` for the grammar):
  limits[a]   restart limit of actor a (None = unlimited)
  actors[a]   {"runs":[{"aw":[d…],"end":O,"oc":{"d":d,"end":O}}…]}  script per invocation number of `_run()`
              O = how the invocation ends (`KIND` maps each name to the kind that is observed):
                ret | exc (an Exception) | base (a BaseException) | cancelled (CancelledError raised by the code itself)
                | sysexit | kbdint (custom BaseException subclasses shaped like SystemExit / KeyboardInterrupt — the real
                  ones are re-raised by asyncio out of the event loop and would end the harness)
                | excgroup (ExceptionGroup) | bgroup_of_exc (`BaseExceptionGroup(…)` of Exceptions only: Python makes it an
                  ExceptionGroup) | basegroup (BaseExceptionGroup of non-Exceptions, what a TaskGroup raises when a child
                  dies with a BaseException) | mixedgroup (BaseExceptionGroup with both kinds of members)
  ctl         control groups at strictly increasing instants; group i sits at (multiple of 1000) + 10·(i+1) µs while every
              scripted duration is a multiple of 1000 µs, so a control instant never ties with an internal timer (ties
              between two timers are resolved by the heap of the event loop, i.e. are not determined by the code under
              test); the ops of one group are issued without yielding.
  end         observation horizon
Observed (and compared with the Lean model): `_run` entries/exits per run-loop task with virtual times, the return
time and raised group of every stop()/wait() call, return times of run(), task states / `is_running` / `_tasks`
right after every synchronous group and right before the next group.
"""
from __future__ import annotations

import asyncio
import itertools
import random
from typing import Any

OUTCOMES = ["ret", "exc", "base", "cancelled", "excgroup", "basegroup"]   # one script name per KIND (exhaustive scopes)
MS = 1000
SEC = 1_000_000


class ProbeExc(Exception):
    pass


class ProbeBase(BaseException):
    pass


class ProbeSystemExit(BaseException):
    """Shaped like `SystemExit` but NOT a subclass of it (asyncio re-raises the real one out of `run_forever`)."""

    def __init__(self, label: str) -> None:
        super().__init__(label)
        self.code = 1


class ProbeKeyboardInterrupt(BaseException):
    """Shaped like `KeyboardInterrupt` but NOT a subclass of it."""


PROBE_CLASSES = (ProbeExc, ProbeBase, ProbeSystemExit, ProbeKeyboardInterrupt)

# script outcome name -> observed kind
KIND = {"ret": "ret", "exc": "exc", "base": "base", "cancelled": "cancelled", "sysexit": "base", "kbdint": "base",
        "excgroup": "excgroup", "bgroup_of_exc": "excgroup", "basegroup": "basegroup", "mixedgroup": "basegroup"}


def make_error(out: str, label: str) -> BaseException | None:
    """The error object a scripted outcome raises (`None`: plain return)."""
    if out == "ret":
        return None
    if out == "exc":
        return ProbeExc(label)
    if out == "base":
        return ProbeBase(label)
    if out == "sysexit":
        return ProbeSystemExit(label)
    if out == "kbdint":
        return ProbeKeyboardInterrupt(label)
    if out == "cancelled":
        return asyncio.CancelledError()
    if out == "excgroup":
        return ExceptionGroup(label, [ProbeExc(label)])
    if out == "bgroup_of_exc":
        return BaseExceptionGroup(label, [ProbeExc(label), ProbeExc(label)])
    if out == "basegroup":
        return BaseExceptionGroup(label, [ProbeBase(label)])
    if out == "mixedgroup":
        return BaseExceptionGroup(label, [ProbeExc(label), ProbeSystemExit(label)])
    raise ValueError(out)


def finish(out: str, label: str) -> None:
    err = make_error(out, label)
    if err is not None:
        raise err


# --------------------------------------------------------------------------------------- real-code runner
def run_case_impl(case: dict) -> tuple[dict, dict]:
    """Run `case` on the real Actor/BackgroundService/run.  Returns (observation, extra facts for the oracle)."""
    import async_solipsism

    loop = async_solipsism.EventLoop()
    asyncio.set_event_loop(loop)
    try:
        return loop.run_until_complete(_main(case, loop))
    finally:
        try:
            loop.close()
        finally:
            asyncio.set_event_loop(None)


def _kind_of_exc(e: BaseException) -> str:
    if isinstance(e, asyncio.CancelledError):
        return "cancelled"
    if isinstance(e, ExceptionGroup):
        return "excgroup"
    if isinstance(e, BaseExceptionGroup):
        return "basegroup"
    if isinstance(e, Exception):
        return "exc"
    return "base"


def _label_of(e: BaseException) -> str:
    """The task label a probe error carries (`*` for anything else, e.g. a CancelledError)."""
    if isinstance(e, PROBE_CLASSES) and e.args:
        return e.args[0]
    if isinstance(e, BaseExceptionGroup) and e.exceptions and all(isinstance(x, PROBE_CLASSES) for x in e.exceptions):
        return e.message
    return "*"


# What the PROPERTY calls a failure of the run logic — "an unhandled exception": the error is an `Exception`.  Read off
# the real error objects (not from the model): exc, excgroup.  Everything else (return, cancellation, any other
# BaseException incl. a BaseExceptionGroup that is not an ExceptionGroup) must never be followed by another invocation.
FAILURE_KINDS = frozenset(KIND[o] for o in KIND if isinstance(make_error(o, "x"), Exception))
ERROR_KINDS = frozenset(k for k in KIND.values() if k not in ("ret", "cancelled"))
assert all(o == "ret" or _kind_of_exc(make_error(o, "x")) == KIND[o] for o in KIND)   # type: ignore[arg-type]
assert all((KIND[o] in FAILURE_KINDS) == isinstance(make_error(o, "x"), Exception) for o in KIND if o != "ret")


async def _main(case: dict, loop: asyncio.AbstractEventLoop) -> tuple[dict, dict]:
    from frequenz.sdk.actor import Actor, run

    def now() -> int:
        return round(loop.time() * 1e6)

    class Probe(Actor):
        def __init__(self, idx: int, limit: int | None, runs: list[dict]) -> None:
            super().__init__(name=f"A{idx}")
            self._restart_limit = limit
            self.runs = runs
            self.labels: dict[asyncio.Task[Any], str] = {}
            self.order: list[asyncio.Task[Any]] = []
            self.loop_tasks: list[asyncio.Task[Any]] = []
            self.hist: dict[asyncio.Task[Any], list] = {}
            self.inv: dict[asyncio.Task[Any], int] = {}
            self.created: dict[str, int] = {}
            self.done_at: dict[str, int] = {}
            self.cancel_seen: dict[str, list[int]] = {}
            self.start_noop_violations: list[dict] = []
            self.teardown = False

        # -- bookkeeping
        def _register(self, task: asyncio.Task[Any], label: str) -> None:
            self.labels[task] = label
            self.order.append(task)
            self.created[label] = now()
            task.add_done_callback(lambda t, lab=label: self.done_at.__setitem__(lab, now()))

        def start(self) -> None:
            was_running = self.is_running
            known = set(self.labels)
            super().start()
            new = [t for t in self._tasks if t not in known]
            for t in new:
                lab = f"L{len(self.loop_tasks)}"
                self.loop_tasks.append(t)
                self.hist[t] = []
                self._register(t, lab)
            if was_running and new:
                self.start_noop_violations.append({"t": now(), "new": [self.labels[t] for t in new]})

        def add_extra(self, spec: dict, label: str) -> None:
            task = asyncio.create_task(self._extra(spec, label))
            self._tasks.add(task)
            self._register(task, label)

        @staticmethod
        def _finish(out: str, label: str) -> None:
            finish(out, label)

        async def _extra(self, spec: dict, label: str) -> None:
            try:
                await asyncio.sleep(spec["dur"] / 1e6)
                out = spec["end"]
            except asyncio.CancelledError:
                if self.teardown:
                    raise
                self.cancel_seen.setdefault(label, []).append(now())
                if spec.get("spawn"):
                    self.add_extra(spec["spawn"], label + "c")
                try:
                    if spec["oc"]["d"] > 0:
                        await asyncio.sleep(spec["oc"]["d"] / 1e6)
                except asyncio.CancelledError:
                    self.cancel_seen[label].append(now())
                    raise
                out = spec["oc"]["end"]
            self._finish(out, label)

        async def _run(self) -> None:
            task = asyncio.current_task()
            assert task is not None
            n = self.inv.get(task, -1) + 1
            self.inv[task] = n
            label = self.labels.get(task, "?")
            h = self.hist.setdefault(task, [])
            h.append(["enter", n, now()])
            sc = self.runs[min(n, len(self.runs) - 1)] if self.runs else {"aw": [], "end": "ret", "oc": {"d": 0, "end": "cancelled"}}
            try:
                try:
                    for d in sc["aw"]:
                        await asyncio.sleep(d / 1e6)
                    out = sc["end"]
                except asyncio.CancelledError:
                    if self.teardown:
                        raise
                    self.cancel_seen.setdefault(label, []).append(now())
                    if sc["oc"]["d"] > 0:
                        await asyncio.sleep(sc["oc"]["d"] / 1e6)
                    out = sc["oc"]["end"]
            except asyncio.CancelledError:
                self.cancel_seen.setdefault(label, []).append(now())
                h.append(["exit", n, "cancelled", now()])
                raise
            h.append(["exit", n, KIND[out], now()])
            self._finish(out, label)

        # -- observation
        def state(self, task: asyncio.Task[Any]) -> str:
            if not task.done():
                return "pending"
            if task.cancelled():
                return "cancelled"
            e = task.exception()
            return "ret" if e is None else _kind_of_exc(e)

        def snap(self) -> dict:
            return {"running": bool(self.is_running),
                    "tasks": {self.labels[t]: self.state(t) for t in self.order},
                    "owned": sorted(self.labels.get(t, "?") for t in self._tasks)}

    n = len(case["limits"])
    actors = [Probe(a, case["limits"][a], case["actors"][a]["runs"]) for a in range(n)]
    calls: list[list[dict]] = [[] for _ in range(n)]
    runs: list[dict] = []
    samples: list[dict] = []
    bg: list[asyncio.Task[Any]] = []
    facts: dict = {"calls": calls, "runs": runs, "cancel_ops": [[] for _ in range(n)]}

    async def do_call(a: int, rec: dict) -> None:
        actor = actors[a]
        try:
            if rec["kind"] == "stop":
                await actor.stop()
            else:
                await actor.wait()
            raised: list[list[str]] = []
        except BaseExceptionGroup as g:
            # one member per task that ended with an error; a member may itself be a group (the task's own error)
            raised = []
            for e in g.exceptions:
                k = _kind_of_exc(e)
                raised.append(["*" if k == "cancelled" else _label_of(e), k])
        rec["raised"] = sorted(raised)
        rec["ret"] = now()
        rec["snap_at_ret"] = actor.snap()

    async def do_run(rec: dict, idxs: list[int]) -> None:
        await run(*[actors[i] for i in idxs])
        rec["ret"] = now()

    async def sleep_until(t: int) -> None:
        d = t / 1e6 - loop.time()
        if d > 0:
            await asyncio.sleep(d)

    pending_post = None
    first = True
    for g in case["ctl"]:
        await sleep_until(g["t"])
        a = g["a"]
        if not first:
            samples.append({"post": pending_post, "pre": [x.snap() for x in actors]})
        first = False
        sync_only = True
        new_calls = []
        for op in g["ops"]:
            k = op["op"]
            if k == "start":
                actors[a].start()
            elif k == "cancel":
                actors[a].cancel()
                facts["cancel_ops"][a].append(g["t"])
            elif k == "add":
                actors[a].add_extra(op, op["label"])
            elif k in ("stop", "wait"):
                rec = {"kind": k, "ret": None, "raised": [], "t": g["t"]}
                calls[a].append(rec)
                new_calls.append((a, rec))
                bg.append(asyncio.create_task(do_call(a, rec)))
                sync_only = False
                if k == "stop":
                    facts["cancel_ops"][a].append(g["t"])
            elif k == "run":
                rec = {"ret": None, "t": g["t"], "as": list(op["as"])}
                runs.append(rec)
                bg.append(asyncio.create_task(do_run(rec, op["as"])))
                sync_only = False
            else:
                raise ValueError(k)
        for a2, rec in new_calls:
            rec["snap_at_call"] = actors[a2].snap()
        pending_post = actors[a].snap() if sync_only else None
    await sleep_until(case["end"])
    if not first:
        samples.append({"post": pending_post, "pre": [x.snap() for x in actors]})
    obs = {
        "hist": [[[list(e) for e in x.hist[t]] for t in x.loop_tasks] for x in actors],
        "calls": [[{"kind": r["kind"], "ret": r["ret"], "raised": r["raised"]} for r in calls[a]] for a in range(n)],
        "runs": [r["ret"] for r in runs],
        "samples": samples,
    }
    facts.update({
        "final": [x.snap() for x in actors],
        "created": [x.created for x in actors],
        "done_at": [dict(x.done_at) for x in actors],
        "cancel_seen": [{k: list(v) for k, v in x.cancel_seen.items()} for x in actors],
        "start_noop": [x.start_noop_violations for x in actors],
        "restart_delay_us": round(Actor.RESTART_DELAY.total_seconds() * 1e6),
    })
    # tear down (not observed)
    for x in actors:
        x.teardown = True
    for _ in range(5):
        todo = [t for t in bg if not t.done()] + [t for x in actors for t in x.order if not t.done()]
        if not todo:
            break
        for t in todo:
            t.cancel()
        await asyncio.wait(todo, timeout=1000.0)
    for x in actors:
        x._tasks.clear()  # pylint: disable=protected-access
    return obs, facts


# --------------------------------------------------------------------------------------- generators
DURS = [1 * MS, 500 * MS, 1 * SEC, 1 * SEC, 2 * SEC, 3 * SEC]


RUN_ENDS = (["ret", "exc", "exc", "exc", "base", "cancelled"]
            + ["excgroup", "excgroup", "bgroup_of_exc", "basegroup", "basegroup", "mixedgroup", "sysexit", "kbdint"])
TASK_ENDS = ["ret", "ret", "ret", "exc", "base", "cancelled", "excgroup", "basegroup", "mixedgroup", "kbdint"]


def gen_oc(rng: random.Random) -> dict:
    return {"d": rng.choice([0, 0, 0, 0, 1 * MS, 500 * MS, 1 * SEC]),
            "end": rng.choice(["cancelled"] * 7 + ["exc", "exc", "ret", "base", "excgroup", "basegroup", "sysexit"])}


def gen_run_script(rng: random.Random) -> dict:
    k = rng.choice([0, 1, 1, 1, 2, 2, 3])
    return {"aw": [rng.choice(DURS) for _ in range(k)],
            "end": rng.choice(RUN_ENDS),
            "oc": gen_oc(rng)}


def gen_extra(rng: random.Random, label: str, allow_spawn: bool = True) -> dict:
    spec: dict = {"op": "add", "label": label,
                  "dur": rng.choice([0, 1 * MS, 500 * MS, 1 * SEC, 2 * SEC, 5 * SEC, 30 * SEC]),
                  "end": rng.choice(TASK_ENDS),
                  "oc": gen_oc(rng), "spawn": None}
    if allow_spawn and rng.random() < 0.3:
        # (a clean-up task never uses `sleep(0)`: its bare yield would race with the wake-up of a stop() whose
        #  position in the ready queue depends on the iteration order of the `_tasks` *set* — not determined by the code)
        spec["spawn"] = {"dur": rng.choice([1 * MS, 1 * MS, 200 * MS, 1 * SEC, 30 * SEC]),
                         "end": rng.choice(["ret", "ret", "ret", "exc", "base", "excgroup", "basegroup"]), "oc": gen_oc(rng)}
    return spec


def gen_case(rng: random.Random) -> dict:
    n = rng.choice([1, 1, 1, 1, 2, 3])
    limits = [rng.choice([0, 1, 2, 3, None, None]) for _ in range(n)]
    actors = [{"runs": [gen_run_script(rng) for _ in range(rng.randint(1, 4))]} for _ in range(n)]
    ngroups = rng.randint(1, 7)
    ctl = []
    t_base = 0
    n_extra = 0
    used_run = False
    for i in range(ngroups):
        # lattice of half seconds ± 1 ms: lands just before / just after the internal timers
        t_base += rng.choice([0, 0, 1, 1, 2, 3, 4, 5, 8]) * 500 * MS if i else rng.choice([0, 0, 1, 2]) * 500 * MS
        delta = rng.choice([0, 0, -1 * MS, 1 * MS])
        t = max(t_base + delta, (ctl[-1]["t"] // MS + 1) * MS if ctl else 0)
        t = (t // MS) * MS + 10 * (i + 1)
        a = rng.randrange(n)
        ops = []
        for _ in range(rng.choice([1, 1, 1, 2, 2, 3])):
            r = rng.random()
            if r < 0.28 or (i == 0 and r < 0.6):
                ops.append({"op": "start"})
            elif r < 0.40:
                ops.append({"op": "cancel"})
            elif r < 0.60:
                ops.append({"op": "stop"})
            elif r < 0.72:
                ops.append({"op": "wait"})
            elif r < 0.94:
                ops.append(gen_extra(rng, f"x{n_extra}"))
                n_extra += 1
            elif not used_run:
                k = rng.randint(1, n)
                ops.append({"op": "run", "as": sorted(rng.sample(range(n), k))})
                used_run = True
            else:
                ops.append({"op": "start"})
        ctl.append({"t": t, "a": a, "ops": ops})
    end = (ctl[-1]["t"] // MS) * MS + rng.choice([1, 500, 1000, 2500, 5000, 9000]) * MS + 990
    return {"limits": limits, "actors": actors, "ctl": ctl, "end": end}


def exhaustive_cases() -> list[dict]:
    """limit ∈ {0,1,2,None} × outcomes³ × (stop|cancel|wait at every phase of the run loop), one actor."""
    out = []
    for limit in (0, 1, 2, None):
        for outs in itertools.product(OUTCOMES, repeat=3):
            runs = [{"aw": [1 * SEC], "end": o, "oc": {"d": 0, "end": "cancelled"}} for o in outs]
            runs.append({"aw": [1 * SEC], "end": "ret", "oc": {"d": 0, "end": "cancelled"}})
            # start at 10 µs; invocation k runs [3k, 3k+1] s, delay (3k+1, 3k+3) s
            positions = [None, 500 * MS, 1 * SEC - MS, 1 * SEC + MS, 2 * SEC, 3 * SEC - MS, 3 * SEC + MS, 3500 * MS,
                         4 * SEC + MS, 6 * SEC - MS, 6500 * MS, 7 * SEC + MS, 9 * SEC + MS, 10 * SEC + MS]
            for pos in positions:
                for op in ("stop", "cancel", "wait"):
                    if pos is None:
                        ctl = [{"t": 10, "a": 0, "ops": [{"op": "start"}, {"op": op}]}]
                    else:
                        ctl = [{"t": 10, "a": 0, "ops": [{"op": "start"}]},
                               {"t": pos + 20, "a": 0, "ops": [{"op": op}]}]
                    out.append({"limits": [limit], "actors": [{"runs": runs}], "ctl": ctl, "end": 14 * SEC + 990})
    return out


def tags_of(case: dict) -> list[str]:
    tags = set()
    ops = [op["op"] for g in case["ctl"] for op in g["ops"]]
    for k in set(ops):
        tags.add("op:" + k)
    if any(len(g["ops"]) > 1 for g in case["ctl"]):
        tags.add("sync-group")
    if any(op.get("spawn") for g in case["ctl"] for op in g["ops"]):
        tags.add("spawn-on-cancel")
    seen_call = False
    for g in case["ctl"]:
        for op in g["ops"]:
            if op["op"] in ("stop", "wait", "run"):
                seen_call = True
            elif op["op"] == "add" and seen_call:
                tags.add("add-after-call")
    for ac in case["actors"]:
        for sc in ac["runs"]:
            tags.add("run-end:" + sc["end"])
    for lim in case["limits"]:
        tags.add("limit:" + ("none" if lim is None else str(min(lim, 2)) + ("+" if lim > 2 else "")))
    if len(case["limits"]) > 1:
        tags.add("multi-actor")
    return sorted(tags)


# --------------------------------------------------------------------------------------- cancel_and_await
def run_caa_impl(case: dict) -> tuple[dict, dict]:
    """Drive the REAL `cancel_and_await` on a probe task; returns (observation, extra facts for the oracle)."""
    import async_solipsism

    loop = async_solipsism.EventLoop()
    asyncio.set_event_loop(loop)
    try:
        return loop.run_until_complete(_caa_main(case, loop))
    finally:
        try:
            loop.close()
        finally:
            asyncio.set_event_loop(None)


async def _caa_main(case: dict, loop: asyncio.AbstractEventLoop) -> tuple[dict, dict]:
    from frequenz.sdk._internal._asyncio import cancel_and_await

    def now() -> int:
        return round(loop.time() * 1e6)

    spec = case["task"]
    holder: dict = {"task": None, "teardown": False, "done_at": None, "deliveries": []}

    async def worker() -> None:
        try:
            await asyncio.sleep(spec["dur"] / 1e6)
            out = spec["end"]
        except asyncio.CancelledError:
            j = 0
            while True:
                if holder["teardown"]:
                    raise
                holder["deliveries"].append(now())
                oc = spec["oc"][min(j, len(spec["oc"]) - 1)] if spec["oc"] else {"k": 0, "d": 0, "end": "cancelled"}
                try:
                    for _ in range(oc["k"]):
                        await asyncio.sleep(oc["d"] / 1e6)
                    out = oc["end"]
                    break
                except asyncio.CancelledError:
                    j += 1
        finish(out, "T")

    callers: list[dict] = []
    bg: list[asyncio.Task[Any]] = []

    async def caller(rec: dict) -> None:
        task = holder["task"]
        rec["done_at_call"] = task.done()
        rec["t_first"] = now()
        try:
            await cancel_and_await(task)
            rec["raised"] = "none"
        except BaseException as e:  # pylint: disable=broad-except
            if holder["teardown"]:
                raise
            rec["raised"] = _kind_of_exc(e)
        rec["ret"] = now()
        rec["task_done_at_ret"] = task.done()

    for g in case["ctl"]:
        d = g["t"] / 1e6 - loop.time()
        if d > 0:
            await asyncio.sleep(d)
        for op in g["ops"]:
            if op == "create":
                t = asyncio.create_task(worker())
                t.add_done_callback(lambda _t: holder.__setitem__("done_at", now()))
                holder["task"] = t
            elif op == "cancel":
                holder["task"].cancel()
            elif op == "caa":
                rec = {"ret": None, "raised": "none", "t": g["t"]}
                callers.append(rec)
                bg.append(asyncio.create_task(caller(rec)))
            else:
                raise ValueError(op)
    d = case["end"] / 1e6 - loop.time()
    if d > 0:
        await asyncio.sleep(d)
    task = holder["task"]
    if not task.done():
        state = "pending"
    elif task.cancelled():
        state = "cancelled"
    else:
        e = task.exception()
        state = "ret" if e is None else _kind_of_exc(e)
    obs = {"task": {"state": state, "done_at": holder["done_at"], "cancelling": task.cancelling()},
           "callers": [{"ret": r["ret"], "raised": r["raised"] if r["ret"] is not None else "none"} for r in callers]}
    facts = {"callers": [dict(r) for r in callers], "state": state, "done_at": holder["done_at"]}
    holder["teardown"] = True
    for _ in range(5):
        todo = [t for t in bg + [task] if not t.done()]
        if not todo:
            break
        for t in todo:
            t.cancel()
        await asyncio.wait(todo, timeout=1000.0)
    if task.done() and not task.cancelled():
        task.exception()
    return obs, facts


def gen_caa_case(rng: random.Random) -> dict:
    """Prior state of the task × instants of bare cancel() calls × 1-3 cancel_and_await callers."""
    oc = [{"k": rng.choice([0, 0, 1, 1, 2, 3]), "d": rng.choice([1 * MS, 500 * MS, 1 * SEC]),
           "end": rng.choice(["cancelled"] * 6 + ["exc", "base", "ret", "excgroup", "basegroup", "kbdint"])}
          for _ in range(rng.randint(1, 3))]
    task = {"dur": rng.choice([1 * MS, 500 * MS, 1 * SEC, 2 * SEC, 100 * SEC, 100 * SEC]),
            "end": rng.choice(TASK_ENDS), "oc": oc}
    first = ["create"]
    pre = rng.random()
    if pre < 0.15:
        first = ["caa", "create"]                  # the caller runs before the task's first step: not started
    elif pre < 0.25:
        first = ["create", "cancel"] + (["cancel"] if rng.random() < 0.5 else [])
    elif pre < 0.35:
        first = ["create", "caa"]
    elif pre < 0.40:
        first = ["caa", "caa", "create"]
    ctl = [{"t": 10, "ops": first}]
    t_base = 0
    for i in range(1, rng.randint(1, 6)):
        t_base += rng.choice([0, 1, 1, 2, 2, 3, 4]) * 500 * MS
        delta = rng.choice([0, 0, -1 * MS, 1 * MS, 100 * MS])
        t = max(t_base + delta, (ctl[-1]["t"] // MS + 1) * MS)
        t = (t // MS) * MS + 10 * (i + 1)
        ops = [rng.choice(["cancel", "caa", "caa"]) for _ in range(rng.choice([1, 1, 2, 2, 3]))]
        ctl.append({"t": t, "ops": ops})
    end = (ctl[-1]["t"] // MS) * MS + rng.choice([1, 1000, 2500, 5000]) * MS + 990
    return {"kind": "caa", "task": task, "ctl": ctl, "end": end}


def exhaustive_caa_cases() -> list[dict]:
    """every prior state × clean-up length × outcome of the clean-up × number of earlier cancel() requests × 1-2 callers."""
    out = []
    for prior in ("not-started", "running", "done"):
        for end in OUTCOMES:
            for k in (0, 1, 2):
                for oc_end in OUTCOMES:
                    for n_cancel in (0, 1, 2):
                        for n_call in (1, 2):
                            for gap in (0, 300 * MS):
                                dur = 1 * SEC if prior == "done" else 100 * SEC
                                task = {"dur": dur, "end": end, "oc": [{"k": k, "d": 1 * SEC, "end": oc_end}]}
                                if prior == "not-started":
                                    if gap:
                                        continue
                                    ctl = [{"t": 10, "ops": ["caa"] * n_call + ["create"] + ["cancel"] * n_cancel}]
                                else:
                                    t0 = 2 * SEC if prior == "done" else 500 * MS
                                    ctl = [{"t": 10, "ops": ["create"]}]
                                    if gap and n_cancel:
                                        ctl.append({"t": t0 + 20, "ops": ["cancel"] * n_cancel})
                                        ctl.append({"t": t0 + gap + 30, "ops": ["caa"] * n_call})
                                    else:
                                        ctl.append({"t": t0 + 20, "ops": ["cancel"] * n_cancel + ["caa"] * n_call})
                                        if gap and n_call == 2:
                                            ctl[-1]["ops"] = ["cancel"] * n_cancel + ["caa"]
                                            ctl.append({"t": t0 + gap + 30, "ops": ["caa"]})
                                out.append({"kind": "caa", "task": task, "ctl": ctl, "end": 6 * SEC + 990})
    return out
