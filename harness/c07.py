"""C07 — the resampled timeline is aligned, gap-free and shared by all series.

Real code: `Resampler` (public API) with `resample()` running as a task on an `async_solipsism` loop whose clock is
integer microseconds; the wall clock follows with `time_machine`.  A case fixes the period, `align_to`, the creation
instant relative to the grid (also `align_to` given in a DST-observing or fixed-offset time zone, creation in the other
DST phase or a run crossing a DST switch), and a script of timed actions: series added (before / while running) and
removed, sinks that sleep (latency < p, = p, several p), the loop being blocked (= late timer), a source that stops or
a sink that starts raising — `resample()` then ends with a ResamplingError and is recovered exactly as
`ComponentMetricsResamplingActor` does (remove the failed sources, call `resample()` again).

Oracle (independent of the Lean model; `resampling_gen.c07_oracle`): every timestamp handed to a sink is
`align_to + k·period`; the first one lies in [creation, creation + 2·period]; each series receives consecutive grid
points (no skip / duplicate / reorder) and — the run ends quiescent — every grid point between its registration and
the end of the run, so all series resampled together have the same timestamps.
Correspondence: the same case through `Drivers/Resampler.lean` (first window end, first timer deadline, and per tick:
loop time of the fire, timestamp, recipients in gather order, whether the loop task died) compared exactly.
"""
from __future__ import annotations

import itertools
import json
import pathlib

from . import resampling_gen as g
from .common import Ctx, python_flags

RULE = ("timed scripts on the real Resampler: period from 1 ms to 3 h (incl. periods not dividing an hour), align_to "
        "epoch/past/future/far-future/None/local time in DST and fixed-offset zones (other DST phase, run crossing a "
        "switch), creation phase {aligned, ±1 µs, <1 ms, half, random}, 1-4 series added at creation or mid-run / "
        "removed / failing (source stops, sink raises) with actor-style remove-and-restart, sink latencies and loop "
        "blocks of <p, =p, several p, calm tail; non-trivial = some lateness, or a series added/removed/failing while "
        "running; distinct by canonical JSON hash")

CORPUS = pathlib.Path(__file__).resolve().parent.parent / "corpus" / "C07"


def check_case(ctx: Ctx, case: dict, tags: list[str]) -> dict:
    res = g.run_loop_case(case)
    if res["errors"]:
        raise RuntimeError(f"harness clock error: {res['errors'][:2]} in {case}")
    for clause, obs in g.c07_oracle(case, res):
        ctx.violation(clause, case, obs)
    out = g.c07_impl_out(res)
    n_ticks = len(out["ticks"])
    ctx.case(case, tags=sorted(set(tags)) + (["ticks>=10"] if n_ticks >= 10 else []), nontrivial=g.c07_nontrivial(case))
    return out


def exhaustive_cases() -> list[tuple[dict, list[str]]]:
    """Bounded-exhaustive small scope: phase × lateness kind × lateness amount × second series added in flight."""
    cases = []
    p = 1_000_000
    for phase, late_kind, late, add_mid, align_none in itertools.product(
            [0, 1, p // 2, p - 1], ["sink", "hog"], [0, p // 2, p, 3 * p], [False, True], [False, True]):
        now = 1_700_000_000_000_000 + phase
        first_due = p if phase == 0 or align_none else 2 * p - phase
        r0 = first_due % g.UNIT
        off = lambda t: t - ((t - r0) % g.UNIT) + 5  # noqa: E731
        actions = [{"t": 0, "op": "add", "s": 0, "d": late if late_kind == "sink" else 0}]
        if late_kind == "hog" and late:
            t = off(first_due + p // 4)
            actions.append({"t": t, "op": "hog", "d": late - ((t + late - r0) % g.UNIT) + 0})
        if add_mid:
            actions.append({"t": off(first_due + p // 5), "op": "add", "s": 1, "d": 0})
        actions.sort(key=lambda a: a["t"])
        t_calm = off(first_due + 4 * p)
        actions.append({"t": t_calm, "op": "lat", "s": 0, "d": 0})
        case = {"kind": "loop", "period": p, "align": None if align_none else 0, "wall0": now, "loop0": 0, "now": now,
                "actions": actions, "end": off(first_due + 12 * p + p // 2)}
        cases.append((case, ["exhaustive-small-scope"]))
    return cases


def run(ctx: Ctx) -> None:
    python_flags()
    ctx.rule = RULE
    cases, outs = [], []
    for f in sorted(CORPUS.glob("*.json")):
        case = json.loads(f.read_text())
        cases.append(case)
        outs.append(check_case(ctx, case, ["corpus"]))
    n = ctx.budget(2000, 60000)
    for i in range(n):
        if ctx.boost > 1 and ctx.violations and i >= 1000:
            break  # the boosted run is a search for a failing input: one has been found
        rng = ctx.subrng("loop", i)
        case, tags = g.gen_loop_case(rng)
        cases.append(case)
        outs.append(check_case(ctx, case, tags))
    if ctx.tier == "thorough":
        for case, tags in exhaustive_cases():
            cases.append(case)
            outs.append(check_case(ctx, case, tags))
    ctx.compare("Resampler", [g.lean_loop_case(c) for c in cases], outs, what="tick timeline (fire time, timestamp, recipients)")

    from . import datapath  # full-stack stage: the same property through the real sourcing -> resampling -> formula stack
    datapath.run_stage(ctx, {"C07-timeline"}, n_quick=40, n_thorough=600)


def replay(ctx: Ctx, data: dict) -> None:
    python_flags()
    case = data.get("case")
    if not case or case.get("kind") != "loop":
        return run(ctx)
    out = check_case(ctx, case, ["replay"])
    ctx.compare("Resampler", [g.lean_loop_case(case)], [out], what="tick timeline")
