"""Full-stack "data path" stage (C05 C06 C07 C08 C12 C13 C19 C20): scenario generator, input-only scenario arithmetic
and the REAL-stack runner.

What runs: the repo's `MockMicrogridClient` (tests/utils; a fake microgrid API client with one `Broadcast` per
component and the REAL `_MicrogridComponentGraph`) is the only fake.  On top of it, untouched: `microgrid.
_data_pipeline.initialize(ResamplerConfig)` -> REAL `DataSourcingActor` -> REAL `ComponentMetricsResamplingActor`
(REAL `Resampler`; the tests' `MockResampler` is NOT used) -> REAL formula generators with their fallback fetchers ->
REAL `FormulaEngine`s behind `microgrid.grid().power`, `consumer().power`, `producer().power`,
`new_battery_pool().power`, `new_pv_pool().power`, `new_ev_charger_pool().power` and
`logical_meter().start_formula(...)`.  Everything runs on an `async_solipsism` loop whose clock drags the wall clock
along (`time_machine`), so `datetime.now()` = WALL0 + loop time at every instant.

A scenario (JSON) =
  {"stage": "datapath", "tree": {"grid": id, "succ": [node …]}              (tree format of harness/graph_gen.py)
   "period": µs, "max_age": "n/d", "init_len": n, "align": null | µs offset of `align_to` from WALL0, "vseed": n,
   "streams": {cid: {"ip": µs, "t0": µs, "n": count, "dstamp": µs, "faults": [[j0, j1, "nan"|"gap"|"inf"] …],
                     ("close": j — the API stream ENDS after j messages; only in the disabled corpus entry)}},
   "formulas": [{"name", "kind": grid|consumer|producer|battery|pv|ev|lm, "at": µs,
                 lm only: "expr", "naz", "metric": ACTIVE_POWER|REACTIVE_POWER, optional "build": µs (the engine is
                 obtained at `build`, a receiver attached at `at`: inputs of already running series hold a backlog),
                 optional "b2b": [cid, j, k] (the request is placed back-to-back with raw message j of component cid, whose
                 send time is `at`: k >= 0 — request, k loop iterations, then the message; k < 0 — right after it)} …],
   "end": µs}
All times are integer µs of LOOP time (wall = WALL0 + loop).  U = period/8.  Apart from "b2b" nothing coincides:
  resampler ticks        on the alignment grid (multiples of period/4 relative to WALL0, or anchored at the creation)
  raw messages           at t0 + j*ip with t0 = k*U + 1000*(1 + index of the component)       (never on a tick)
  formula requests       the first (it creates the resampler) at k*U + 400 or exactly on the grid, later ones at k*U + 600
  harness snapshots      13 µs before and 137 µs after every tick, 13 µs before and 37 µs after every request
                         (private read of the resampler's series: name, input-period estimate, deque length); a series
                         seen for the first time gets two listeners: on its resampled channel and on its ":Source" channel
Raw message j of component c is stamped  WALL0 + send time + dstamp  (dstamp 0; -eps: exactly on U multiples, hence
sometimes exactly T or T - W; positive: stamped in the future, "fargrid" = 4U - eps: a sample stamped exactly T and a
later-stamped one are buffered together) and carries the active power `physical(sc, c, j)` (reactive power =
2 * active + 1): a pseudo-random integer for devices and unmetered loads; in a COHERENT scenario (all streams share
ip / phase / stamp mode) a meter reads its load plus everything below it at the same index, so the physical balance
holds message by message.
"""
from __future__ import annotations

import asyncio
import math
import random
import re
import sys
from datetime import datetime, timedelta, timezone
from fractions import Fraction
from typing import Any, Iterator

STAGE = "datapath"
EPOCH = datetime(1970, 1, 1, tzinfo=timezone.utc)
WALL0 = 1704067200_000000  # 2024-01-01T00:00:00Z in µs; a multiple of every period used
NON_EXISTING = sys.maxsize
DEVICE_KINDS = ("batInv", "pvInv", "ev")
SNAP_TICK = 137
SNAP_REQ = 37
SNAP_PRE = 13
REQ_OFF = 400
KINDS = ("grid", "consumer", "producer", "battery", "pv", "ev", "lm")
NS_PREFIX = {"grid": "grid-", "consumer": "consumer-", "producer": "producer-", "battery": "battery-pool-",
             "pv": "pv-pool-", "ev": "ev-charger-pool-", "lm": "logical-meter-"}


def dt(us: int) -> datetime:
    return EPOCH + timedelta(microseconds=us)


def us_of(d: datetime) -> int:
    x = d - EPOCH
    return (x.days * 86400 + x.seconds) * 1000000 + x.microseconds


# --------------------------------------------------------------------------- tree helpers (graph_gen format)
def walk(nodes: list[dict], parent: dict | None = None) -> Iterator[tuple[dict, dict | None]]:
    for n in nodes:
        yield n, parent
        if n["k"] == "meter":
            yield from walk(n["c"], n)


def all_nodes(tree: dict) -> list[dict]:
    return [n for n, _ in walk(tree["succ"])]


def node_of(tree: dict, cid: int) -> dict | None:
    return next((n for n in all_nodes(tree) if n["id"] == cid), None)


def comp_ids(tree: dict) -> list[int]:
    """Every component that streams data, in a fixed order (meters and devices in tree order, then batteries)."""
    out = [n["id"] for n in all_nodes(tree)]
    for n in all_nodes(tree):
        if n["k"] == "batInv":
            out += [b for b in n["bats"] if b not in out]
    return out


def kind_of(tree: dict, cid: int) -> str:
    n = node_of(tree, cid)
    return n["k"] if n is not None else "battery"


def one_kind(children: list[dict]) -> str | None:
    """The device kind all successors of a meter have, if they are all devices of one kind."""
    if not children:
        return None
    kinds = {c["k"] for c in children}
    if len(kinds) == 1 and next(iter(kinds)) in DEVICE_KINDS:
        return next(iter(kinds))
    return None


def fallback_of(tree: dict, cid: int) -> list[int]:
    """C19: the fallback components of a meter = its successors, if they are all devices of ONE kind ("the primary
    measuring component of a term, e.g. a PV meter … the sum of its fallback components, e.g. the PV inverters")."""
    n = node_of(tree, cid)
    if n is None or n["k"] != "meter" or one_kind(n["c"]) is None:
        return []
    return [c["id"] for c in n["c"]]


def dedicated_meter(tree: dict, cid: int) -> bool:
    """A PV / battery / EV meter in the sense of the component graph: not the grid meter (the only successor of the
    grid), all successors devices of one kind."""
    if not fallback_of(tree, cid):
        return False
    return not (len(tree["succ"]) == 1 and tree["succ"][0]["id"] == cid)


def regime_consumer(tree: dict) -> str | None:
    """Input regime of the known finding C12-consumer-no-grid-meter — the same predicate and the same tag as
    `graph_gen.regime_consumer` (harness/c12.py): the grid's successors are not all plain meters, and a plain (not
    device-dedicated) meter directly below the grid has a device somewhere below it."""
    single = len(tree["succ"]) == 1

    def dedicated(n: dict) -> bool:                # is_pv_meter or is_battery_meter or is_ev_charger_meter …
        return n["k"] == "meter" and not single and one_kind(n["c"]) is not None

    def has_device(n: dict) -> bool:
        return n["k"] != "meter" or any(has_device(c) for c in n["c"])

    if all(n["k"] == "meter" and not dedicated(n) for n in tree["succ"]):
        return None
    plain = [n for n in tree["succ"] if n["k"] == "meter" and not dedicated(n)]
    return "NoGridMeterMixedMeter" if any(has_device(m) for m in plain) else None


# --------------------------------------------------------------------------- scenario arithmetic (input only)
def max_age(sc: dict) -> float:
    return float(Fraction(sc["max_age"]))


def creation(sc: dict) -> int:
    """The resampler is created by the first accessor call (building the first engine)."""
    return min(f.get("build", f["at"]) for f in sc["formulas"])


def first_tick(sc: dict) -> int:
    """LOOP time of the first tick the property allows us to predict only up to [creation, creation + 2 periods];
    this is the value the documented alignment rule gives (used for scheduling the harness, never for judging)."""
    p, c = sc["period"], creation(sc)
    if sc["align"] is None:
        return c + p
    el = (c - sc["align"]) % p
    return c + p if el == 0 else c + 2 * p - el


def value(sc: dict, cid: int, j: int) -> int:
    """Pseudo-random integer in [-300, 300], fixed by (vseed, component, index)."""
    x = (sc["vseed"] * 1000003 + cid * 7919 + j * 104729 + 12345) & 0xFFFFFFFF
    x = (x * 2654435761) & 0xFFFFFFFF
    x ^= x >> 13
    x = (x * 2246822519) & 0xFFFFFFFF
    x ^= x >> 16
    return x % 601 - 300


def coherent(sc: dict) -> bool:
    """All streamed components send at the same instants (up to their < U/2 identification offset) with the same
    stamp shift: a meter can then report the physical sum of what is below it, message by message."""
    u = sc["period"] // 8
    sts = [sc["streams"][str(c)] for c in comp_ids(sc["tree"]) if kind_of(sc["tree"], c) != "battery"]
    return len({(s["ip"], s["t0"] // u, s["n"]) for s in sts}) == 1 and all(
        s["dstamp"] in (0, -(s["t0"] % u)) for s in sts) and len({s["dstamp"] == 0 for s in sts}) == 1


def fault_at(st: dict, j: int) -> str | None:
    for a, b, k in st["faults"]:
        if a <= j < b:
            return k
    return None


def physical(sc: dict, cid: int, j: int, coh: bool | None = None) -> int:
    """What component `cid` measures at raw index j: devices and unmetered loads are pseudo-random; in a coherent
    scenario a meter adds everything below it (whether or not that data reaches anybody)."""
    if coh is None:
        coh = coherent(sc)
    n = node_of(sc["tree"], cid)
    if n is None or n["k"] != "meter" or not coh:
        return value(sc, cid, j)
    return load_of(sc, cid, j) + sum(physical(sc, c["id"], j, coh) for c in n["c"])


def reactive_of(v: float) -> float:
    """Reactive power carried by a message whose active power is v (a fixed injective function: one plan, two metrics)."""
    return 2 * v + 1


def load_of(sc: dict, cid: int, j: int) -> int:
    n = node_of(sc["tree"], cid)
    assert n is not None and n["k"] == "meter"
    return 0 if one_kind(n["c"]) is not None else abs(value(sc, cid, j)) % 97


def raw_plan(sc: dict) -> dict[int, list[dict]]:
    """component -> its raw messages in send order: {"j", "send" (loop µs), "ts" (wall µs), "v": number | "nan" | "inf"}
    (messages of a "gap" are not sent and not listed).  Batteries send battery data (no power): not listed."""
    out: dict[int, list[dict]] = {}
    coh = coherent(sc)
    for cid in comp_ids(sc["tree"]):
        if kind_of(sc["tree"], cid) == "battery":
            continue
        st = sc["streams"][str(cid)]
        msgs = []
        for j in range(st["n"]):
            f = fault_at(st, j)
            if f == "gap":
                continue
            send = st["t0"] + j * st["ip"]
            if send >= sc["end"] or (st.get("close") is not None and j >= st["close"]):
                break
            msgs.append({"j": j, "send": send, "ts": WALL0 + send + st["dstamp"],
                         "v": f if f in ("nan", "inf") else physical(sc, cid, j, coh)})
        out[cid] = msgs
    return out


# --------------------------------------------------------------------------- generator
def _ids(rng: random.Random, n: int) -> list[int]:
    return rng.sample(range(2, 60), n)


def gen_tree(rng: random.Random) -> dict:
    """1-3 meters, 0-2 battery inverters (one battery each), 0-2 PV inverters, 0-1 EV chargers, with / without a grid
    meter, device groups behind a dedicated meter or not, optionally a load-only meter."""
    n_bat, n_pv, n_ev = rng.choice([0, 1, 1, 2]), rng.choice([0, 1, 1, 2]), rng.choice([0, 1])
    if n_bat + n_pv + n_ev == 0:
        n_pv = 1
    grid_meter = rng.random() < 0.7
    budget = 3 - (1 if grid_meter else 0)
    groups: list[list[dict]] = []
    for kind, n in (("batInv", n_bat), ("pvInv", n_pv), ("ev", n_ev)):
        if n:
            groups.append([{"k": kind} for _ in range(n)])
    rng.shuffle(groups)
    children: list[dict] = []
    force_mixed = (not grid_meter) and rng.random() < 0.4    # a plain meter with devices below it, no grid meter
    mixed: list[dict] = []
    for gi, grp in enumerate(groups):
        r = rng.random()
        if force_mixed and gi < 2:
            mixed += grp
        elif budget > (1 if force_mixed else 0) and r < 0.6:
            children.append({"k": "meter", "c": grp})
            budget -= 1
        else:
            children += grp
    if mixed:
        if len({d["k"] for d in mixed}) == 1 and budget > 1:
            mixed.append({"k": "meter", "c": []})            # one device kind + a load meter: still not dedicated
            budget -= 1
        children.append({"k": "meter", "c": mixed})
        budget -= 1
    if budget > 0 and rng.random() < 0.35:
        children.append({"k": "meter", "c": []})   # a consumer: load-only meter
        budget -= 1
    if not grid_meter and not any(c["k"] == "meter" for c in children):
        grid_meter = True
    devices = [d for grp in groups for d in grp]
    if rng.random() < 0.12 and len({d["k"] for d in devices}) >= 2 and len(devices) >= 3:
        # several grid successors that are all plain (non-dedicated) meters with devices below more than one of them
        grid_meter = False
        rng.shuffle(devices)
        first = [devices[0], next(d for d in devices[1:] if d["k"] != devices[0]["k"])]
        rest = [d for d in devices if all(d is not x for x in first)]
        children = [{"k": "meter", "c": first}, {"k": "meter", "c": rest + [{"k": "meter", "c": []}]}]
    rng.shuffle(children)
    succ = [{"k": "meter", "c": children}] if grid_meter else children
    tree = {"grid": 1, "succ": succ}
    nodes = all_nodes(tree)
    n_b = sum(1 for n in nodes if n["k"] == "batInv")
    ids = _ids(rng, len(nodes) + n_b)
    for n in nodes:
        n["id"] = ids.pop()
        if n["k"] == "batInv":
            n["bats"] = [ids.pop()]
    return tree


def _lm_expr(rng: random.Random, ids: list[int]) -> str:
    """A string formula over distinct component ids: + - * / and parentheses, any nesting and whitespace."""
    if len(ids) >= 2 and rng.random() < 0.3:      # four operands (ids may repeat: the builder shares the fetcher)
        base = rng.sample(ids, min(len(ids), 4))
        t4 = [f"#{base[i % len(base)]}" for i in range(4)]
        return rng.choice(["{0} - {1} * {2} + {3}", "{0} - {1} / {2} - {3}", "{0} + {1} * {2} - {3}",
                           "{0}-{1}*({2}+{3})", "{0} - ({1} - ({2} + {3}))", "({0} + {1}) * ({2} - {3})"]).format(*t4)
    k = min(len(ids), rng.randint(2, 4))
    t = [f"#{i}" for i in rng.sample(ids, k)]
    if k >= 4 and rng.random() < 0.5:             # a low-precedence operator that must pop two stacked operators
        return rng.choice(["{0} - {1} * {2} + {3}", "{0} - {1} / {2} - {3}", "{0} + {1} * {2} - {3}",
                           "{0}-{1}*({2}+{3})", "{0} - ({1} - ({2} + {3}))", "({0} + {1}) * ({2} - {3})"]).format(*t)
    if k == 3 and rng.random() < 0.6:
        return rng.choice(["{0} - {1} * {2}", "{0} - {1} - {2}", "{0} / {1} * {2}", "{0} - ({1} - {2})",
                           "({0} + {1}) / {2}", "{0} * {1} - {2}", " {0}  +  ( {1} ) * {2} "]).format(*t)
    expr = t[0]
    for i, x in enumerate(t[1:]):
        op = rng.choice(["+", "-", "*", "/"] if i else ["+", "-", "-", "*", "/"])
        r = rng.random()
        expr = f"({expr}) {op} {x}" if r < 0.3 else f"{expr} {op}  ( {x} )" if r < 0.5 else f"{expr} {op} {x}"
    return expr


def gen_scenario(rng: random.Random) -> dict:
    tree = gen_tree(rng)
    p = rng.choice([250000, 500000, 1000000, 1000000, 2000000])
    u = p // 8
    ma = rng.choice(["1", "2", "2", "3", "3/2"])
    init_len = rng.choice([2, 4, 4, 16])
    # alignment: None, the default-like past grid, a shifted grid, a future grid
    r = rng.random()
    align = None if r < 0.2 else rng.choice([0, 0, 2 * u, -6 * u, 4 * u - 40 * p, 4 * u + 1000 * p])
    # first request: on / off the alignment grid
    k0 = rng.randint(6, 14)
    on_grid = align is not None and rng.random() < 0.3
    if on_grid:
        create = ((k0 * u - align) // p) * p + align + p
    else:
        create = k0 * u + REQ_OFF
    n_ticks = rng.randint(9, 15)
    ids = comp_ids(tree)
    power_ids = [c for c in ids if kind_of(tree, c) != "battery"]
    coh = rng.random() < 0.6
    rate = rng.choice([p // 4, p // 2, p // 2, p, p, 2 * p, 3 * p])
    phase = rng.randint(0, 7)
    stamp = rng.choice(["zero", "zero", "grid", "future"])
    end = create + (n_ticks + 2) * p + 600
    streams: dict[str, dict] = {}
    for idx, cid in enumerate(ids):
        eps = 1000 * (1 + idx)
        ip = rate if coh else rng.choice([p // 4, p // 2, p, p, 2 * p, 3 * p])
        ph = phase if coh else rng.randint(0, 7)
        start_late = (not coh) and rng.random() < 0.15          # raw data of this component starts after the formulas
        t0 = ph * u + eps + (create - create % u + 3 * u if start_late else 0)
        sm = stamp if coh else rng.choice(["zero", "zero", "grid", "future", "far", "fargrid"])
        # "fargrid": stamped on U multiples 4 U ahead, so a sample stamped exactly T and a later-stamped one are buffered
        ds = {"zero": 0, "grid": -eps, "future": u - eps, "far": 2 * u, "fargrid": 4 * u - eps}[sm]
        if coh and sm == "future":
            ds = 0
        n = (end - t0) // ip + 1
        streams[str(cid)] = {"ip": ip, "t0": t0, "n": int(n), "dstamp": ds, "faults": []}
    # faults: mostly on a primary meter that has a fallback, for long enough that the resampled value goes missing
    meters = [n for n in all_nodes(tree) if n["k"] == "meter"]
    with_fb = [m for m in meters if one_kind(m["c"]) is not None]
    def add_fault(cid: int, kind: str, long: bool) -> None:
        st = streams[str(cid)]
        per_tick = max(1, p // st["ip"])
        j_create = max(0, (create - st["t0"]) // st["ip"])
        a = j_create + rng.randint(1, max(2, (n_ticks // 2) * per_tick))
        ln = (rng.randint(3, 6) * per_tick * (3 if long else 1)) if long else rng.randint(1, 2)
        st["faults"].append([int(a), int(min(st["n"], a + ln)), kind])
    if with_fb and rng.random() < 0.75:
        m = rng.choice(with_fb)
        add_fault(m["id"], rng.choice(["nan", "nan", "gap", "inf"]), True)
        if rng.random() < 0.3:                  # the fallback devices have a hole of their own
            add_fault(rng.choice(m["c"])["id"], rng.choice(["nan", "gap"]), rng.random() < 0.5)
    if rng.random() < 0.45:
        add_fault(rng.choice(power_ids), rng.choice(["nan", "gap", "inf", "inf"]), rng.random() < 0.5)
    for st in streams.values():
        st["faults"].sort()
        merged: list[list] = []
        for f in st["faults"]:                  # keep the intervals disjoint
            if merged and f[0] < merged[-1][1]:
                continue
            merged.append(f)
        st["faults"] = merged
    # formulas
    kinds = ["grid", "consumer", "producer", "battery", "pv", "ev"]
    formulas: list[dict] = []
    all_five = rng.random() < 0.55
    chosen = kinds if all_five else [k for k in kinds if rng.random() < 0.5] or ["grid"]
    late = rng.random() < 0.5
    for k in chosen:
        at = create
        if late and k != chosen[0] and rng.random() < 0.4:
            at = create - create % u + rng.randint(1, 5 * 8) * u + REQ_OFF + 200
        formulas.append({"name": k, "kind": k, "at": int(at)})
    n_lm = rng.choice([0, 1, 2, 2, 3])
    lms: list[dict] = []
    for i in range(n_lm):
        at = create if rng.random() < 0.5 else create - create % u + rng.randint(1, 4 * 8) * u + REQ_OFF + 200
        metric = "REACTIVE_POWER" if (i > 0 and rng.random() < 0.4) else "ACTIVE_POWER"
        f = {"name": f"lm{i}", "kind": "lm", "expr": _lm_expr(rng, power_ids), "naz": rng.random() < 0.4,
             "metric": metric, "at": int(at)}
        if lms and rng.random() < 0.7 and len(power_ids) >= 3:
            # shares two components (and their already running series) with an earlier logical-meter formula, adds a
            # new one, and is BUILT some ticks before a receiver is attached: its old inputs hold a backlog that starts
            # at one common older tick, the new input starts later (C06: different first timestamps)
            base = lms[0]
            shared = [int(x) for x in re.findall(r"#(\d+)", base["expr"])][:2]
            fresh = [c for c in power_ids if f"#{c}" not in base["expr"]]
            if len(shared) == 2 and fresh:
                f["metric"] = base["metric"]
                f["expr"] = rng.choice(["#{0} + #{1} - #{2}", "#{2} - #{0} * #{1}", "(#{0} - #{2}) / #{1}"]).format(
                    shared[0], shared[1], rng.choice(fresh))
                f["build"] = int(base["at"] - base["at"] % u + rng.randint(8, 24) * u + REQ_OFF + 200)
                f["at"] = int(f["build"] + rng.randint(2, 4) * p)
        if any(x["expr"] == f["expr"] and x["metric"] == f["metric"] for x in lms):
            continue
        lms.append(f)
    formulas += lms
    # a late request placed back-to-back with a raw message of one of its components
    late_fs = [f for f in formulas if f["at"] > create and "build" not in f]
    if late_fs and rng.random() < 0.6:
        f = rng.choice(late_fs)
        cands = [c for c in power_ids] if f["kind"] != "lm" else [int(x) for x in re.findall(r"#(\d+)", f["expr"])]
        cid = rng.choice(cands)
        st = streams[str(cid)]
        j = (f["at"] - st["t0"]) // st["ip"] + 1
        if 0 <= j < st["n"] and fault_at(st, int(j)) != "gap" and st["t0"] + j * st["ip"] < end - 3 * p:
            f["at"] = int(st["t0"] + j * st["ip"])
            f["b2b"] = [cid, int(j), rng.choice([-1, -1, 0, 1, 2, 3, 4, 5, 6, 8])]
    return {"stage": STAGE, "tree": tree, "period": p, "max_age": ma, "init_len": init_len, "align": align,
            "vseed": rng.randint(0, 10**6), "streams": streams, "formulas": formulas, "end": int(end)}


# --------------------------------------------------------------------------- the real stack
class _Cfg:
    def getini(self, _name: str) -> bool:
        return False


class LockstepClock:
    """Clock of the solipsism loop (integer µs) that drags the wall clock (time_machine) along."""

    def __init__(self, traveller: Any, resolution: float = 1e-6):
        self._ticks = 0
        self._resolution = resolution
        self._traveller = traveller

    @property
    def resolution(self) -> float:
        return self._resolution

    def time(self) -> float:
        return self._ticks * self._resolution

    def advance(self, delta: float) -> None:
        self._ticks += round(delta / self._resolution)
        self._traveller.move_to(dt(WALL0 + self._ticks), tick=False)

    @property
    def us(self) -> int:
        return self._ticks


_NAME_RE = re.compile(r"namespace=(.*),component_id=(\d+),metric_id=(\w+),start=")


def parse_series(name: str) -> dict | None:
    """Channel name of a resampled series -> {"ns", "cid", "metric", "kind" (formula kind by namespace prefix), "fb"}."""
    m = _NAME_RE.search(name)
    if not m:
        return None
    ns, cid, metric = m.group(1), int(m.group(2)), m.group(3)
    kind = next((k for k, pre in NS_PREFIX.items() if ns.startswith(pre)), None)
    return {"ns": ns, "cid": cid, "metric": metric, "kind": kind, "fb": "_fallback_" in ns}


def comps_conns(tree: dict) -> tuple[set, set]:
    from frequenz.client.microgrid import (Component, ComponentCategory, Connection, Fuse, GridMetadata,
                                           InverterType)

    cat = ComponentCategory
    comps = {Component(tree["grid"], cat.GRID, None, GridMetadata(Fuse(10_000.0)))}
    conns = set()
    for n, parent in walk(tree["succ"]):
        conns.add(Connection(tree["grid"] if parent is None else parent["id"], n["id"]))
        if n["k"] == "meter":
            comps.add(Component(n["id"], cat.METER))
        elif n["k"] == "batInv":
            comps.add(Component(n["id"], cat.INVERTER, InverterType.BATTERY))
            for b in n["bats"]:
                comps.add(Component(b, cat.BATTERY))
                conns.add(Connection(n["id"], b))
        elif n["k"] == "pvInv":
            comps.add(Component(n["id"], cat.INVERTER, InverterType.SOLAR))
        elif n["k"] == "ev":
            comps.add(Component(n["id"], cat.EV_CHARGER))
        else:
            raise ValueError(n["k"])
    return comps, conns


async def _drive(sc: dict, clock: LockstepClock) -> dict:
    from frequenz.client.microgrid import ComponentMetricId
    from frequenz.quantities import Quantity
    from frequenz.sdk import microgrid
    from frequenz.sdk.microgrid import _data_pipeline as dp_mod
    from frequenz.sdk.timeseries import ResamplerConfig, Sample
    from frequenz.sdk.timeseries._resampling import average
    from pytest_mock import MockerFixture
    from tests.utils.component_data_wrapper import (BatteryDataWrapper, EvChargerDataWrapper, InverterDataWrapper,
                                                    MeterDataWrapper)
    from tests.utils.mock_microgrid_client import MockMicrogridClient

    tree = sc["tree"]
    period = sc["period"]
    mocker = MockerFixture(_Cfg())  # type: ignore[arg-type]
    comps, conns = comps_conns(tree)
    client = MockMicrogridClient(comps, conns)
    client.initialize(mocker)

    calls: list[dict] = []          # every call of the resampling function
    outs: dict[str, list] = {}      # formula -> [[recv loop µs, ts wall µs, value | None]]
    series_out: dict[str, list] = {}  # resampled series (channel name) -> [[recv loop µs, ts wall µs, value | None]]
    source_out: dict[str, list] = {}  # the same series' SOURCE channel (output of the data sourcing actor), same rows
    snaps: list[dict] = []          # {"t": loop µs, "series": {name: {"ip": µs | None, "maxlen": n, "props": id}}}
    info: dict[str, dict] = {}      # formula -> {"str": …, "raised": …}
    notes: list[str] = []
    keep: list[Any] = []

    def resampler() -> Any:
        act = dp_mod._DATA_PIPELINE._resampling_actor  # type: ignore[union-attr]  # noqa: SLF001
        return None if act is None else act.actor._resampler  # noqa: SLF001

    def window_end() -> int | None:
        try:
            return us_of(resampler()._window_end)  # noqa: SLF001
        except Exception:  # pylint: disable=broad-except
            return None

    def recording_average(samples: Any, conf: Any, props: Any) -> float:
        keep.append(props)
        calls.append({"t": clock.us, "T": window_end(), "props": id(props),
                      "ip": None if props.sampling_period is None else us_of(EPOCH + props.sampling_period),
                      "samples": [[us_of(s.timestamp), _num(s.value.base_value)] for s in samples]})
        return average(samples, conf, props)

    kwargs: dict[str, Any] = {}
    if sc["align"] is None:
        kwargs["align_to"] = None
    else:
        kwargs["align_to"] = dt(WALL0 + sc["align"])
    config = ResamplerConfig(resampling_period=timedelta(microseconds=period), resampling_function=recording_average,
                             max_data_age_in_periods=max_age(sc), initial_buffer_len=sc["init_len"], **kwargs)
    dp_mod._DATA_PIPELINE = None  # noqa: SLF001
    await dp_mod.initialize(config)
    dp = dp_mod._DATA_PIPELINE  # noqa: SLF001
    tasks: list[asyncio.Task] = []
    pools: list[Any] = []

    async def until(t: int) -> None:
        d = t - clock.us
        if d > 0:
            await asyncio.sleep(d / 1e6)

    async def reader(store: dict, name: str, rx: Any) -> None:
        async for s in rx:
            store.setdefault(name, []).append(
                [clock.us, us_of(s.timestamp), None if s.value is None else _num(s.value.base_value)])

    def snapshot() -> None:
        try:
            res = resampler()
            if res is None:
                snaps.append({"t": clock.us, "series": {}})
                return
            cur: dict[str, dict] = {}
            for _src, sh in list(res._resamplers.items()):  # noqa: SLF001
                helper = sh._helper  # noqa: SLF001
                props = helper.source_properties
                name = helper._name  # noqa: SLF001
                cur[name] = {"ip": None if props.sampling_period is None else us_of(EPOCH + props.sampling_period),
                             "maxlen": helper._buffer.maxlen, "props": id(props)}  # noqa: SLF001
                if name not in series_out:
                    # a series we have not seen before: listen to what the resampler sends on its channel
                    series_out[name] = []
                    rx = dp._channel_registry.get_or_create(Sample[Quantity], name).new_receiver(limit=2000)  # noqa: SLF001
                    tasks.append(asyncio.create_task(reader(series_out, name, rx)))
                    # … and to what the data sourcing actor sends the resampler for it (namespace + ":Source")
                    meta = parse_series(name)
                    if meta is not None:
                        src_name = name.replace(f"namespace={meta['ns']},", f"namespace={meta['ns']}:Source,")
                        source_out[name] = []
                        rx2 = dp._channel_registry.get_or_create(Sample[Quantity], src_name).new_receiver(limit=5000)  # noqa: SLF001
                        tasks.append(asyncio.create_task(reader(source_out, name, rx2)))
            snaps.append({"t": clock.us, "series": cur})
        except Exception as exc:  # pylint: disable=broad-except
            msg = f"snapshot unavailable: {type(exc).__name__}: {exc}"
            if msg not in notes:
                notes.append(msg)

    st_of = sc["streams"]

    async def stream(cid: int, kind: str, msgs: list[dict]) -> None:
        for m in msgs:
            await until(m["send"])
            ts = dt(m["ts"])
            v = float("nan") if m["v"] == "nan" else float("inf") if m["v"] == "inf" else float(m["v"])
            q = reactive_of(v)
            if kind == "meter":
                data: Any = MeterDataWrapper(cid, ts, active_power=v, reactive_power=q)
            elif kind in ("batInv", "pvInv"):
                data = InverterDataWrapper(cid, ts, active_power=v, reactive_power=q)
            else:
                data = EvChargerDataWrapper(cid, ts, active_power=v, reactive_power=q)
            b2b = [f for f in sc["formulas"] if f.get("b2b", [None])[:2] == [cid, m["j"]]]
            for f in b2b:                         # a request placed just BEFORE this message (k loop iterations apart)
                if f["b2b"][2] >= 0:
                    build_formula(f)
                    attach_formula(f)
                    for _ in range(f["b2b"][2]):
                        await asyncio.sleep(0)
            await client.send(data)
            for f in b2b:                         # … or right AFTER it was handed to the API client
                if f["b2b"][2] < 0:
                    build_formula(f)
                    attach_formula(f)
        if st_of.get(str(cid), {}).get("close") is not None:
            await client.close_channel(cid)

    async def stream_battery(cid: int, st: dict) -> None:
        for j in range(st["n"]):
            send = st["t0"] + j * st["ip"]
            if send >= sc["end"]:
                return
            await until(send)
            await client.send(BatteryDataWrapper(cid, dt(WALL0 + send), soc=50.0, soc_lower_bound=10.0,
                                                 soc_upper_bound=90.0, capacity=2000.0))

    async def ticker() -> None:
        """Snapshot 137 µs after every tick (the first tick is where the documented rule puts it; the rest follows the
        period — if the real timeline differs, the snapshots are merely taken elsewhere)."""
        t = first_tick(sc)
        while t + SNAP_TICK < sc["end"]:
            await until(t - SNAP_PRE)
            snapshot()
            await until(t + SNAP_TICK)
            snapshot()
            t += period

    engines: dict[str, Any] = {}

    def build_formula(f: dict) -> None:
        """Obtain the engine through the public accessor (this creates its receivers on the resampled channels)."""
        kind = f["kind"]
        if f["name"] in engines or f["name"] in info:
            return
        try:
            if kind == "grid":
                eng = microgrid.grid().power
            elif kind == "consumer":
                eng = microgrid.consumer().power
            elif kind == "producer":
                eng = microgrid.producer().power
            elif kind == "battery":
                pool = microgrid.new_battery_pool(priority=5)
                pools.append(pool)
                eng = pool.power
            elif kind == "pv":
                pool = microgrid.new_pv_pool(priority=5)
                pools.append(pool)
                eng = pool.power
            elif kind == "ev":
                pool = microgrid.new_ev_charger_pool(priority=5)
                pools.append(pool)
                eng = pool.power
            elif kind == "lm":
                metric = getattr(ComponentMetricId, f.get("metric", "ACTIVE_POWER"))
                eng = microgrid.logical_meter().start_formula(f["expr"], metric, nones_are_zeros=f["naz"])
            else:
                raise ValueError(kind)
        except Exception as exc:  # pylint: disable=broad-except
            info[f["name"]] = {"raised": f"{type(exc).__name__}: {exc}"[:300]}
            return
        engines[f["name"]] = eng
        info[f["name"]] = {"str": str(eng), "built": clock.us}
        try:  # which terms were built with a fallback (private; the oracle falls back on the topology without it)
            info[f["name"]]["has_fb"] = {name[1:]: ft._fallback is not None  # noqa: SLF001
                                         for name, ft in eng._builder._metric_fetchers.items()}  # noqa: SLF001
        except Exception:  # pylint: disable=broad-except
            pass

    def attach_formula(f: dict) -> None:
        """`new_receiver()`: starts the engine, which subscribes its series with the resampling actor."""
        eng = engines.get(f["name"])
        if eng is None or f["name"] in outs:
            return
        info[f["name"]]["at"] = clock.us
        outs[f["name"]] = []
        tasks.append(asyncio.create_task(reader(outs, f["name"], eng.new_receiver(max_size=2000))))

    try:
        plan = raw_plan(sc)
        for cid, msgs in plan.items():
            tasks.append(asyncio.create_task(stream(cid, kind_of(tree, cid), msgs)))
        for cid in comp_ids(tree):
            if kind_of(tree, cid) == "battery":
                tasks.append(asyncio.create_task(stream_battery(cid, sc["streams"][str(cid)])))
        tasks.append(asyncio.create_task(ticker()))
        times = sorted({f["at"] for f in sc["formulas"]} | {f["build"] for f in sc["formulas"] if "build" in f})
        for at in times:
            await until(at - SNAP_PRE)
            snapshot()
            await until(at)
            if clock.us != at:
                notes.append(f"request scheduled for {at} ran at {clock.us}")
            for f in sc["formulas"]:
                if "b2b" in f:
                    continue                      # placed by the stream of that component, back-to-back with a message
                if f.get("build", f["at"]) == at:
                    build_formula(f)
                if f["at"] == at:
                    attach_formula(f)
            await until(at + SNAP_REQ)
            snapshot()
        await until(sc["end"])
        snapshot()
        created = None
        try:
            created = {"w_next": window_end()}
        except Exception:  # pylint: disable=broad-except
            pass
    finally:
        for t in tasks:
            t.cancel()
        await asyncio.gather(*tasks, return_exceptions=True)
        try:
            await asyncio.gather(*[p.stop() for p in pools], return_exceptions=True)
            await dp._stop()  # noqa: SLF001
            for w in (dp._battery_power_wrapper, dp._ev_power_wrapper, dp._pv_power_wrapper):  # noqa: SLF001
                await w.stop()
        except Exception as exc:  # pylint: disable=broad-except
            notes.append(f"shutdown: {type(exc).__name__}")
        mocker.stopall()
        dp_mod._DATA_PIPELINE = None  # noqa: SLF001
        try:
            from frequenz.sdk.timeseries import grid as grid_mod

            grid_mod._GRID = None  # noqa: SLF001
        except Exception:  # pylint: disable=broad-except
            pass
    return {"outs": outs, "series": series_out, "source": source_out, "calls": calls, "snaps": snaps, "info": info, "notes": notes,
            "created": created}


def _num(x: float) -> Any:
    """JSON-able number: finite floats as they are, NaN / ±inf as strings."""
    if isinstance(x, float) and math.isnan(x):
        return "nan"
    if isinstance(x, float) and math.isinf(x):
        return "inf" if x > 0 else "-inf"
    return x


class Hung(Exception):
    """The event loop kept spinning at one virtual instant (wall-clock watchdog)."""


def run_scenario(sc: dict, watchdog_s: float = 90.0) -> dict:
    """Run one scenario on a fresh virtual loop whose clock also drives `datetime.now()`.  A zero-delay busy loop in
    the stack would never let virtual time advance; a wall-clock alarm turns that into {"hung": True}."""
    import signal
    import threading

    import async_solipsism
    import time_machine

    loop = async_solipsism.EventLoop()
    asyncio.set_event_loop(loop)
    armed = threading.current_thread() is threading.main_thread() and hasattr(signal, "SIGALRM")

    def on_alarm(_sig: int, _frm: Any) -> None:
        raise Hung()

    old = None
    try:
        if armed:
            old = signal.signal(signal.SIGALRM, on_alarm)
            signal.setitimer(signal.ITIMER_REAL, watchdog_s)
        with time_machine.travel(dt(WALL0), tick=False) as traveller:
            clock = LockstepClock(traveller)
            loop._selector.clock = clock  # noqa: SLF001
            try:
                return loop.run_until_complete(_drive(sc, clock))
            except Hung:
                return {"hung": True, "at": clock.us, "outs": {}, "series": {}, "source": {}, "calls": [], "snaps": [], "info": {},
                        "notes": [f"event loop spinning at virtual time {clock.us} us (watchdog {watchdog_s} s)"],
                        "created": None}
    finally:
        if armed:
            signal.setitimer(signal.ITIMER_REAL, 0)
            if old is not None:
                signal.signal(signal.SIGALRM, old)
        try:
            from frequenz.sdk.microgrid import _data_pipeline as dp_mod

            dp_mod._DATA_PIPELINE = None  # noqa: SLF001
            from frequenz.sdk.microgrid import connection_manager

            connection_manager._CONNECTION_MANAGER = None  # noqa: SLF001
        except Exception:  # pylint: disable=broad-except
            pass
        try:
            loop.close()
        except Exception:  # pylint: disable=broad-except
            pass
        finally:
            asyncio.set_event_loop(None)


__all__ = ["STAGE", "WALL0", "gen_scenario", "run_scenario", "raw_plan", "parse_series", "fallback_of", "coherent",
           "first_tick", "creation", "max_age", "regime_consumer"]
