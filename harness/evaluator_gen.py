"""Runtime + generators shared by C06 (formula evaluator synchronisation) and C19 (fallback metric fetcher).

Everything here drives the REAL classes of the repo (`FormulaBuilder`, `FormulaEngine`, `FormulaEngine3Phase`,
`MetricFetcher`, `FallbackFormulaMetricFetcher`) on an `async_solipsism` loop with real `Broadcast` channels.

Time.  A case fixes `t0us` and `stepus`; tick `k` is the timestamp `EPOCH + t0us + k*stepus` (µs).  Cases and
outputs travel in *ticks* (exact integer division checked on the way back; an off-grid timestamp is reported raw
as {"offgrid": µs}).  The code under test only compares and copies timestamps, so the unit does not matter to it;
the oracles check the step on the µs values.

Schedules.  A schedule is a list of harness actions executed one by one; after every action the loop is run
until quiescent (`settle`), so every task has advanced as far as the delivered data allows.  That makes the real
run a deterministic function of the schedule, which is what the Lean drivers replay.
"""
from __future__ import annotations

import asyncio
import math
from datetime import datetime, timedelta, timezone
from typing import Any

EPOCH = datetime(2024, 1, 1, tzinfo=timezone.utc)
SETTLE_CAP = 400


def new_loop():
    import async_solipsism

    loop = async_solipsism.EventLoop()
    asyncio.set_event_loop(loop)
    return loop


def run_async(coro):
    loop = new_loop()
    try:
        return loop.run_until_complete(coro)
    finally:
        try:
            # (a task may swallow a cancellation — the pinned `except ReceiverError[Any]` turns it into a TypeError —
            # so cancel a few times and never wait unboundedly)
            for _ in range(3):
                pending = [t for t in asyncio.all_tasks(loop) if not t.done()]
                if not pending:
                    break
                for t in pending:
                    t.cancel()
                loop.run_until_complete(asyncio.wait(pending, timeout=0.01))
        finally:
            asyncio.set_event_loop(None)
            loop.close()


async def settle() -> bool:
    """Yield until no other callback is ready.  Returns False when the cap was hit (a task spins)."""
    loop = asyncio.get_running_loop()
    for _ in range(SETTLE_CAP):
        await asyncio.sleep(0)
        if not loop._ready:  # type: ignore[attr-defined]  # pylint: disable=protected-access
            return True
    return False


async def wait_virtual(seconds: float) -> None:
    """Let `seconds` of event-loop time pass (virtual clock: the loop jumps there once every task is blocked)."""
    # in slices: asyncio caps a single select at 24 h, which the virtual-clock selector reports as "sleep forever"
    left = float(seconds)
    while left > 0:
        await asyncio.sleep(min(left, 3600.0))
        left -= 3600.0


class Grid:
    """tick <-> datetime on the grid of one case."""

    def __init__(self, t0us: int, stepus: int):
        self.t0us, self.stepus = t0us, stepus

    def dt(self, tick: int) -> datetime:
        return EPOCH + timedelta(microseconds=self.t0us + tick * self.stepus)

    def us(self, when: datetime) -> int:
        d = when - EPOCH
        return (d.days * 86400 + d.seconds) * 1_000_000 + d.microseconds

    def tick(self, when: datetime) -> Any:
        off = self.us(when) - self.t0us
        if off % self.stepus:
            return {"offgrid": self.us(when)}
        return off // self.stepus


def mk_value(v: Any):
    """JSON value -> Quantity | None.  ints/'n/d' strings are exact; "nan"/"inf" are the invalid floats."""
    from fractions import Fraction

    from frequenz.quantities import Quantity

    if v is None:
        return None
    if v == "nan":
        return Quantity(math.nan)
    if v == "inf":
        return Quantity(math.inf)
    if v == "-inf":
        return Quantity(-math.inf)
    return Quantity(float(Fraction(v)))


def is_valid(v: Any) -> bool:
    return v is not None and v not in ("nan", "inf", "-inf")


def canon_value(q) -> Any:
    """Quantity | None -> canonical rational string, or None for None/NaN/inf."""
    from .common import rat

    if q is None:
        return None
    b = q.base_value
    if math.isnan(b) or math.isinf(b):
        return None
    return rat(b)


def mk_sample(grid: Grid, tick: int, v: Any):
    from frequenz.sdk.timeseries import Sample

    return Sample(grid.dt(tick), mk_value(v))


def canon_sample(grid: Grid, s) -> Any:
    return [grid.tick(s.timestamp), canon_value(s.value)]


def import_engine():
    """Import order matters (circular imports in the package): microgrid first."""
    import frequenz.sdk.microgrid  # noqa: F401  pylint: disable=unused-import
    from frequenz.sdk.timeseries.formula_engine import _formula_engine as fe

    return fe


def load_corpus(prop: str) -> list[dict]:
    import json
    import pathlib

    d = pathlib.Path(__file__).resolve().parent.parent / "corpus" / prop
    return [json.loads(p.read_text()) for p in sorted(d.glob("*.json"))] if d.exists() else []


# ------------------------------------------------------------------------------------------ interleavings
def interleave(rng, seqs: list[list[Any]], burst: float = 0.5) -> list[Any]:
    """Random order-preserving merge of several sequences; `burst` = probability of staying on a stream."""
    idx = [0] * len(seqs)
    out: list[Any] = []
    cur = None
    while True:
        live = [i for i in range(len(seqs)) if idx[i] < len(seqs[i])]
        if not live:
            return out
        if cur not in live or rng.random() >= burst:
            cur = rng.choice(live)
        out.append(seqs[cur][idx[cur]])
        idx[cur] += 1


def all_interleavings(seqs: list[list[Any]]):
    """All order-preserving merges (bounded-exhaustive scopes of the thorough tier)."""
    seqs = [s for s in seqs if s]
    if not seqs:
        yield []
        return
    for i, s in enumerate(seqs):
        rest = seqs[:i] + [s[1:]] + seqs[i + 1:]
        for tail in all_interleavings(rest):
            yield [s[0]] + tail
