"""C08 — resampled values use exactly the recent, non-future, valid input samples.

Real code, two paths:
 (a) `_ResamplingHelper` driven synchronously (`add_sample`, `resample(T)`) with integer-µs timelines: up/down-sampling,
     bursts, silences longer than the maximum age, samples stamped exactly `T`, exactly `T − W` (± 1 µs) and in the
     future, small buffers (so that the deque drops and is resized), unordered streams as a malformed class;
 (b) the public path: `Resampler` + a recording `resampling_function` passed through `ResamplerConfig`, sources fed
     while `resample()` runs on the virtual loop (late timers, slow sinks of several periods, series added mid-run);
     the per-series order "sample handed to the receiving task / tick" is taken from ONE ordered log.
In both, the sequence handed to the resampling function and the emitted value are compared with
 * the oracle (`resampling_gen.c08_oracle`, independent of the Lean model): the valid samples still held by a deque of
   the configured length, stamped in `(T − max_age·max(period, input period), T]`, in arrival order; nothing stamped
   after `T`, nothing None/NaN; value None iff that list is empty — for time-ordered input;
 * the Lean model through `Drivers/Resampler.lean` (also for unordered input; exact equality, including the buffer
   length after every tick, the input period and the final buffer content).
The input-period *value* (a float computation) is read back from the implementation and given to the model.
"""
from __future__ import annotations

import json
import pathlib

from . import resampling_gen as g
from .common import Ctx, python_flags

RULE = ("(a) helper timelines: period 1 ms-60 s, max_age in {1,1.25,1.5,2,2.5,3,10,1.1,2.7}, initial buffer 1-16, input "
        "period p/8..7p, <=60 samples, 2-12 ticks, boundary stamps T, T-W (±1 µs), future stamps, bursts, silences, "
        "None/NaN/±inf values, resampling functions returning NaN/±inf/±0/denormal or the stock average (30 % of the helper cases), fast sources whose buffer must grow to ~100..1400 samples (around warn 128 / max 1024); (b) the same through Resampler on the virtual loop with lateness scripts; non-trivial = a boundary "
        "stamp, a future stamp, a burst, a silence or a buffer resize occurs; distinct by canonical JSON hash")

CORPUS = pathlib.Path(__file__).resolve().parent.parent / "corpus" / "C08"
INTERESTING = {"stamp-at-T", "stamp-at-T-W", "future-stamp", "burst", "silence", "resized", "deque-dropped",
               "infinite-sample", "fast-source", "fn-nan", "fn-inf", "fn--inf", "fn-zero", "fn-negzero", "fn-tiny", "fn-average"}


def judge(ctx: Ctx, case: dict, impl: dict, tags: list[str], path: str, pairs: list) -> None:
    tags = list(tags) + [path]
    ordered = g.time_ordered(case)
    has_raw_invalid = any(e["op"] == "add" and (e.get("none") or e.get("nan")) for e in case["events"])
    if any(t["maxlen"] != case["init_len"] for t in impl["ticks"]):
        tags.append("resized")
    if any(t["ip"] is not None for t in impl["ticks"]):
        tags.append("input-period-estimated")
    if any(t["err"] for t in impl["ticks"]):
        tags.append("helper-raised")
    n_valid = sum(1 for e in case["events"] if e["op"] != "tick" and not (e.get("none") or e.get("nan")))
    if n_valid > case["init_len"]:
        tags.append("deque-dropped")
    if any(t["none"] for t in impl["ticks"]):
        tags.append("emitted-none")
    if ordered and not has_raw_invalid:
        for clause, obs in g.c08_oracle(case, impl):
            ctx.violation(clause, case, obs)
    else:
        tags.append("out-of-domain(model=code only)")
    if g.float_sensitive(case, impl):
        tags.append("float-sensitive(not compared)")
    else:
        pairs.append((case, impl))
    ctx.case(case, tags=sorted(set(tags)), nontrivial=bool(INTERESTING & set(tags)))


def run_helper(ctx: Ctx, case: dict, tags: list[str], pairs: list) -> None:
    impl = g.run_helper_case(case)  # fills in the read-back estimates (`est`) of the tick events
    judge(ctx, case, impl, tags, "path-helper", pairs)


def run_public(ctx: Ctx, case: dict, tags: list[str], pairs: list) -> None:
    res = g.run_loop_case(case)
    if res["errors"]:
        raise RuntimeError(f"harness clock error: {res['errors'][:2]}")
    if res["dead"] is not None:
        # the loop task died: what was emitted before is still judged.  IndexError is C07's finding on the unfixed
        # tree; a ResamplingError can only come from a helper that raised (sources and sinks of this harness never do)
        tags = tags + ["loop-task-died"]
        if res["dead"] != "IndexError":
            ctx.violation("no-value-emitted", case, {"loop_task_ended_with": res["dead"]})
    for sid in sorted({a["s"] for a in case["actions"] if a["op"] == "add"}):
        tr = g.helper_case_of_trace(case, res, sid)
        if tr is None:
            continue
        mcase, impl = tr
        mcase["origin"] = {"series": sid, "loop_case": case}
        impl_full = dict(impl)
        # the driver also reports the final buffer; not observable per series on this path
        impl_full["buf"] = None
        judge(ctx, mcase, impl_full, tags, "path-public", pairs)


def run(ctx: Ctx) -> None:
    python_flags()
    ctx.rule = RULE
    pairs: list = []
    for f in sorted(CORPUS.glob("*.json")):
        case = json.loads(f.read_text())
        if case.get("kind") == "helper":
            run_helper(ctx, case, ["corpus"], pairs)
        else:
            run_public(ctx, case, ["corpus"], pairs)
    n_helper = ctx.budget(3000, 100000)
    for i in range(n_helper):
        if ctx.boost > 1 and ctx.violations and i >= 2000:
            break  # the boosted run is a search for a failing input: one has been found
        rng = ctx.subrng("helper", i)
        r = rng.random()
        case, tags = g.gen_helper_case(rng, ordered=r < 0.9, exotic=r > 0.97)
        run_helper(ctx, case, tags, pairs)
    for i in range(ctx.budget(40, 1200)):
        if ctx.boost > 1 and ctx.violations and i >= 40:
            break
        case, tags = g.gen_fast_source_case(ctx.subrng("fast", i))
        run_helper(ctx, case, tags, pairs)
    if ctx.tier == "thorough":
        for case in exhaustive_cases():
            run_helper(ctx, case, ["exhaustive-small-scope"], pairs)
    n_public = ctx.budget(400, 12000)
    for i in range(n_public):
        if ctx.boost > 1 and ctx.violations and i >= 300:
            break
        rng = ctx.subrng("public", i)
        case, tags = g.gen_loop_case(rng, with_samples=True, allow_remove=False, max_ticks=14)
        run_public(ctx, case, tags, pairs)
    compare(ctx, pairs)

    from . import datapath  # full-stack stage: the same property through the real sourcing -> resampling -> formula stack
    datapath.run_stage(ctx, {"C08-window"}, n_quick=40, n_thorough=600)


def exhaustive_cases() -> list[dict]:
    """Bounded-exhaustive small scope: every non-decreasing sequence of <= 4 stamps over the lattice of window edges
    {T-W-1, T-W, T-W+1, T, T+1} × initial buffer length {1, 2, 5} × max_age {1, 3/2}; ticks at T and T + p."""
    import itertools

    cases = []
    p, T = 1_000_000, 10_000_000
    for max_age, init_len in itertools.product(["1", "3/2"], [1, 2, 5]):
        W = g.window_us(p, None, g.Fraction(max_age))
        lattice = [T - W - 1, T - W, T - W + 1, T, T + 1]
        for n in range(0, 5):
            for stamps in itertools.combinations_with_replacement(lattice, n):
                events = [{"op": "recv", "ts": ts, "id": i, "none": False, "nan": False} for i, ts in enumerate(stamps)]
                events += [{"op": "tick", "T": T, "est": None}, {"op": "tick", "T": T + p, "est": None}]
                cases.append({"kind": "helper", "period": p, "max_age": max_age, "init_len": init_len, "max_len": 1024,
                              "events": events})
    return cases


def compare(ctx: Ctx, pairs: list) -> None:
    cases = [{k: v for k, v in c.items() if k != "origin"} for c, _ in pairs]
    impls = [i for _, i in pairs]
    if not ctx.model_available:
        return
    from .common import LeanDriverError, canon, lean_run

    try:
        outs = lean_run("Resampler", cases)
    except LeanDriverError as e:
        ctx.model_available = False
        ctx.extra["driver_error"] = str(e)[:1500]
        ctx.mismatch({"driver": "Resampler"}, None, None, f"model driver unavailable: {str(e)[:300]}")
        return
    for (case, impl), out in zip(pairs, outs):
        ctx.traces_validated += 1
        impl = {k: v for k, v in impl.items() if k != "vals"}  # the function's results are judged by the oracle only
        if impl.get("buf") is None:  # public path: final buffer not observed
            out = {k: v for k, v in out.items() if k != "buf"}
            impl = {k: v for k, v in impl.items() if k != "buf"}
        if canon(impl) != canon(out):
            ctx.mismatch(case, impl, out, "relevant samples / buffer length / input period per tick")


def replay(ctx: Ctx, data: dict) -> None:
    python_flags()
    case = data.get("case")
    if not case or "kind" not in case:
        return run(ctx)
    pairs: list = []
    if case["kind"] == "helper" and "origin" in case:
        run_public(ctx, case["origin"]["loop_case"], ["replay"], pairs)
    elif case["kind"] == "helper":
        run_helper(ctx, case, ["replay"], pairs)
    else:
        run_public(ctx, case, ["replay"], pairs)
    compare(ctx, pairs)
