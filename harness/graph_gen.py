"""C12 — component trees: generation, enumeration, the REAL generators, the independent oracle.

A tree is JSON as read by `lean/Drivers/Graph.lean`:
    {"grid": id, "succ": [node, …]}
    node = {"k":"meter","id":n,"c":[…]} | {"k":"batInv","id":n,"bats":[…]} | {"k":"pvInv","id":n} | {"k":"ev","id":n} | {"k":"chp","id":n}
A case adds "bat"/"pv"/"ev" (explicit sub-pools or null), "power" (device id -> rational string) and
"load" (meter id -> rational string).

Batteries may be shared: the same battery id in the "bats" of several battery inverters (chained DC wiring);
the generators only share batteries between inverters with the same predecessor (one DC bus behind one meter).
A case may carry "history": [tree, …] — the topologies ONE long-lived graph object held before (formulas were
generated on each, then `refresh_from` installed the next); the case's own tree is the topology it holds now.
"""
from __future__ import annotations

import importlib.util
import itertools
import pathlib
import random
import sys
from fractions import Fraction
from typing import Any, Iterator
from unittest import mock

from .common import REPO, VERIF, rat

NON_EXISTING = sys.maxsize
DEVICE_KINDS = ("batInv", "pvInv", "ev", "chp")

# ----------------------------------------------------------------------------- tree helpers


def walk(nodes: list[dict], parent: dict | None = None) -> Iterator[tuple[dict, dict | None]]:
    for n in nodes:
        yield n, parent
        if n["k"] == "meter":
            yield from walk(n["c"], n)


def all_nodes(tree: dict) -> list[dict]:
    return [n for n, _ in walk(tree["succ"])]


def size(tree: dict) -> int:
    return len(all_nodes(tree))


def ids_of(tree: dict, kind: str) -> list[int]:
    return [n["id"] for n in all_nodes(tree) if n["k"] == kind]


def battery_ids(tree: dict) -> list[int]:
    return list(dict.fromkeys(b for n in all_nodes(tree) if n["k"] == "batInv" for b in n["bats"]))


def one_kind(children: list[dict]) -> str | None:
    """The device kind a meter is dedicated to (by the shape of the graph alone), else None."""
    if not children:
        return None
    kinds = {c["k"] for c in children}
    if len(kinds) == 1 and next(iter(kinds)) in DEVICE_KINDS:
        return next(iter(kinds))
    return None


def admissible(tree: dict) -> bool:
    """Inside the quantifier of C12: grid has successors, CHPs metered, inverters have batteries."""
    if not tree["succ"]:
        return False
    for n, parent in walk(tree["succ"]):
        if n["k"] == "chp" and (parent is None or one_kind(parent["c"]) != "chp"):
            return False
        if n["k"] == "batInv" and not n["bats"]:
            return False
    return True


def shared_batteries(tree: dict) -> str:
    """"none" | "siblings" (only inverters with the same predecessor share a battery) | "across"."""
    owners: dict[int, set[int]] = {}
    for n, parent in walk(tree["succ"]):
        if n["k"] == "batInv":
            for b in n["bats"]:
                owners.setdefault(b, set()).add(-1 if parent is None else parent["id"])
    inv_count: dict[int, int] = {}
    for n in all_nodes(tree):
        if n["k"] == "batInv":
            for b in set(n["bats"]):
                inv_count[b] = inv_count.get(b, 0) + 1
    if any(len(v) > 1 for v in owners.values()):
        return "across"
    return "siblings" if any(v > 1 for v in inv_count.values()) else "none"


def has_device(n: dict) -> bool:
    return n["k"] != "meter" or any(has_device(c) for c in n["c"])


def code_dedicated(n: dict, is_grid_meter: bool) -> bool:
    """`is_pv_meter or is_battery_meter or is_ev_charger_meter or is_chp_meter` as documented."""
    return n["k"] == "meter" and not is_grid_meter and one_kind(n["c"]) is not None


def regime_consumer(tree: dict) -> str | None:
    """NoGridMeterMixedMeter: the grid's successors are not all plain meters, and a meter that the
    consumer search meets first (not dedicated to one device type) has a device somewhere below it."""
    single = len(tree["succ"]) == 1
    if all(n["k"] == "meter" and not code_dedicated(n, single) for n in tree["succ"]):
        return None

    def first_plain(nodes: list[dict], top: bool) -> Iterator[dict]:
        for n in nodes:
            if n["k"] != "meter":
                continue
            if not code_dedicated(n, top and single):
                yield n
            # a dedicated meter has only devices below it: nothing more to find

    return "NoGridMeterMixedMeter" if any(has_device(m) for m in first_plain(tree["succ"], True)) else None


def regime_subpool(tree: dict, kind: str, selected: set[int]) -> str | None:
    """SubPoolSharedMeter: a meter dedicated to `kind` has some, but not all, successors in the pool."""
    single = len(tree["succ"]) == 1
    for n, parent in walk(tree["succ"]):
        if n["k"] == "meter" and one_kind(n["c"]) == kind and not (parent is None and single):
            sel = [c["id"] in selected for c in n["c"]]
            if any(sel) and not all(sel):
                return "SubPoolSharedMeter"
    return None


# ----------------------------------------------------------------------------- generation
def _leaf(kind: str) -> dict:
    return {"k": kind, "id": 0, "bats": [0]} if kind == "batInv" else {"k": kind, "id": 0}


def gen_forest(rng: random.Random, budget: int, depth: int, top: bool) -> list[dict]:
    """Random forest with exactly `budget` nodes (budget >= 1)."""
    out: list[dict] = []
    style = rng.random()
    while budget > 0:
        r = rng.random()
        if depth > 0 and budget >= 1 and r < (0.55 if top else 0.35):
            inner = rng.randint(0, budget - 1)
            m: dict = {"k": "meter", "id": 0, "c": []}
            if inner:
                q = rng.random()
                if q < 0.45:      # dedicated meter
                    kind = rng.choice(DEVICE_KINDS)
                    m["c"] = [_leaf(kind) for _ in range(rng.randint(1, min(inner, 3)))]
                    inner = len(m["c"])
                else:
                    m["c"] = gen_forest(rng, inner, depth - 1, False)
            out.append(m)
            budget -= 1 + inner
        else:
            kinds = ("batInv", "pvInv", "ev", "chp") if (style < 0.15) else ("batInv", "pvInv", "ev")
            out.append(_leaf(rng.choice(kinds)))
            budget -= 1
    rng.shuffle(out)
    return out


def assign_ids(rng: random.Random, tree: dict, spread: int = 40) -> dict:
    nodes = all_nodes(tree)
    nbat = sum(len(n.get("bats", [])) for n in nodes)
    pool = rng.sample(range(1, max(spread, 2 * (len(nodes) + nbat + 1)) + 1), len(nodes) + nbat + 1)
    tree["grid"] = pool.pop()
    for n in nodes:
        n["id"] = pool.pop()
        if n["k"] == "batInv":
            n["bats"] = [pool.pop() for _ in n["bats"]]
    return tree


def gen_tree(rng: random.Random, max_nodes: int = 10, malformed: bool = False) -> dict:
    n = rng.randint(1, max_nodes)
    top_n = 1 if rng.random() < 0.35 else None
    if top_n == 1:
        # a single grid successor: usually a (grid) meter
        if n == 1 or rng.random() < 0.1:
            succ = [_leaf(rng.choice(("batInv", "pvInv", "ev")))] if rng.random() < 0.5 else [{"k": "meter", "id": 0, "c": []}]
        else:
            q = rng.random()
            if q < 0.25:
                kind = rng.choice(DEVICE_KINDS)
                cs = [_leaf(kind) for _ in range(rng.randint(1, min(n - 1, 3)))]
            else:
                cs = gen_forest(rng, n - 1, 3, True)
            succ = [{"k": "meter", "id": 0, "c": cs}]
    else:
        succ = gen_forest(rng, n, 3, True)
    tree = {"grid": 0, "succ": succ}
    for nd in all_nodes(tree):
        if nd["k"] == "batInv":
            r = rng.random()
            nd["bats"] = [0, 0] if r < 0.15 else ([] if (malformed and r > 0.8) else [0])
    if malformed and rng.random() < 0.5:
        # a CHP where the generators do not expect one
        target = rng.choice([None] + [m for m in all_nodes(tree) if m["k"] == "meter"])
        (tree["succ"] if target is None else target["c"]).append(_leaf("chp"))
    return assign_ids(rng, tree)


def sibling_groups(tree: dict) -> list[list[dict]]:
    """Groups (>= 2) of battery inverters with the same predecessor."""
    groups = [[n for n in tree["succ"] if n["k"] == "batInv" and n["bats"]]]
    groups += [[c for c in m["c"] if c["k"] == "batInv" and c["bats"]] for m in all_nodes(tree) if m["k"] == "meter"]
    return [g for g in groups if len(g) >= 2]


def share_batteries(rng: random.Random, tree: dict, always: bool = False) -> bool:
    """Chained DC wiring inside sibling groups (ids must already be assigned): inverter i also hangs on a battery of
    inverter i-1 — `a:[x] b:[x,y] c:[y]`, `a:[x] b:[x]`, `a:[x,y] b:[y,x]`, …"""
    done = False
    for grp in sibling_groups(tree):
        if not always and rng.random() > 0.5:
            continue
        rng.shuffle(grp)
        for prev, cur in zip(grp, grp[1:]):
            r = rng.random()
            if r < 0.55:
                cur["bats"] = [rng.choice(prev["bats"])] + cur["bats"]         # joins the previous battery, keeps its own
            elif r < 0.8:
                cur["bats"] = [rng.choice(prev["bats"])] + cur["bats"][1:]      # its first battery IS the previous one
            cur["bats"] = list(dict.fromkeys(cur["bats"]))
            done = done or r < 0.8
    return done


def gen_dc_bus(rng: random.Random, max_nodes: int = 9) -> dict:
    """A tree in which one place (below the grid or below some meter) carries 2-4 battery inverters on a shared bus."""
    tree = gen_tree(rng, max_nodes=max(1, max_nodes - 3))
    places = [None] + [m for m in all_nodes(tree) if m["k"] == "meter"]
    place = rng.choice(places)
    if rng.random() < 0.45:                      # a new (dedicated) battery meter for the bus
        m = {"k": "meter", "id": 0, "c": []}
        (tree["succ"] if place is None else place["c"]).append(m)
        place = m
    kids = tree["succ"] if place is None else place["c"]
    for _ in range(rng.randint(2, 4)):
        kids.append({"k": "batInv", "id": 0, "bats": [0] * (1 if rng.random() < 0.75 else 2)})
    rng.shuffle(kids)
    assign_ids(rng, tree)
    share_batteries(rng, tree, always=True)
    return tree


def _fresh_ids(rng: random.Random, used: set[int], k: int) -> list[int]:
    out = []
    hi = max(40, 2 * (len(used) + k))
    while len(out) < k:
        i = rng.randint(1, hi)
        if i not in used:
            used.add(i)
            out.append(i)
    return out


def mutate_topology(rng: random.Random, tree: dict, used: set[int]) -> dict:
    """The next topology of a history: same ids for what stays; devices / meters are added below or removed from a
    meter (so that it changes role: dedicated <-> mixed <-> load-only, dedicated to another type), or the number
    of grid successors changes (grid meter <-> one of several)."""
    import json

    t = json.loads(json.dumps({"grid": tree["grid"], "succ": tree["succ"]}))
    for _ in range(rng.randint(1, 2)):
        meters = [m for m in all_nodes(t) if m["k"] == "meter"]
        dedicated = [m for m in meters if one_kind(m["c"]) is not None]
        r = rng.random()
        if r < 0.12 or not meters:
            # the grid gains / loses a successor
            if len(t["succ"]) > 1 and rng.random() < 0.5:
                t["succ"].pop(rng.randrange(len(t["succ"])))
            else:
                kind = rng.choice(("meter", "pvInv", "ev", "batInv"))
                (nid,) = _fresh_ids(rng, used, 1)
                t["succ"].append({"k": "meter", "id": nid, "c": []} if kind == "meter" else
                                 {"k": kind, "id": nid, **({"bats": _fresh_ids(rng, used, 1)} if kind == "batInv" else {})})
            continue
        m = rng.choice(dedicated) if dedicated and rng.random() < 0.7 else rng.choice(meters)
        have = one_kind(m["c"])
        leaves = [c for c in m["c"] if c["k"] != "meter"]
        if r < 0.55 or not leaves:
            kinds = [k for k in ("batInv", "pvInv", "ev", "chp", "meter") if k != have] if rng.random() < 0.8 else [have or "ev"]
            kind = rng.choice(kinds)
            (nid,) = _fresh_ids(rng, used, 1)
            if kind == "meter":
                m["c"].append({"k": "meter", "id": nid, "c": []})
            elif kind == "batInv":
                m["c"].append({"k": "batInv", "id": nid, "bats": _fresh_ids(rng, used, 1)})
            else:
                m["c"].append({"k": kind, "id": nid})
        elif r < 0.8:
            m["c"].remove(rng.choice(leaves))
        else:
            # all devices below the meter are exchanged for another type
            other = rng.choice([k for k in DEVICE_KINDS if k != have])
            m["c"] = [c for c in m["c"] if c["k"] == "meter"]
            for nid in _fresh_ids(rng, used, rng.randint(1, 2)):
                m["c"].append({"k": "batInv", "id": nid, "bats": _fresh_ids(rng, used, 1)} if other == "batInv" else {"k": other, "id": nid})
    if not t["succ"]:
        (nid,) = _fresh_ids(rng, used, 1)
        t["succ"].append({"k": "meter", "id": nid, "c": []})
    return t


def used_ids(tree: dict) -> set[int]:
    return {tree["grid"]} | {n["id"] for n in all_nodes(tree)} | set(battery_ids(tree))


def gen_history(rng: random.Random, steps: int) -> list[dict]:
    """Topologies t0, t1, … over one id space (each obtained from the previous by `mutate_topology`)."""
    t = gen_tree(rng, max_nodes=8) if rng.random() < 0.8 else gen_dc_bus(rng, 8)
    if not any(n["k"] == "meter" and one_kind(n["c"]) for n in all_nodes(t)) and rng.random() < 0.7:
        # make sure some meter has a role to lose
        kind = rng.choice(DEVICE_KINDS)
        used = used_ids(t)
        mid, did = _fresh_ids(rng, used, 2)
        leaf = {"k": "batInv", "id": did, "bats": _fresh_ids(rng, used, 1)} if kind == "batInv" else {"k": kind, "id": did}
        host = rng.choice([None] + [m for m in all_nodes(t) if m["k"] == "meter" and one_kind(m["c"]) is None])
        (t["succ"] if host is None else host["c"]).append({"k": "meter", "id": mid, "c": [leaf]})
    used = used_ids(t)
    out = [t]
    for _ in range(steps):
        out.append(mutate_topology(rng, out[-1], used))
    return out


def canonical_key(n: dict) -> tuple:
    if n["k"] == "meter":
        return (0, tuple(sorted(canonical_key(c) for c in n["c"])))
    return (1, n["k"], len(n.get("bats", [])))


def enum_forests(budget: int, depth: int) -> Iterator[list[dict]]:
    """All forests with exactly `budget` nodes, children as multisets (no two permutations)."""
    def nodes_of_size(s: int, d: int) -> list[dict]:
        out = []
        if s == 1:
            out += [_leaf(k) for k in DEVICE_KINDS]
        if d > 0:
            for f in forests(s - 1, d - 1):
                out.append({"k": "meter", "id": 0, "c": f})
        return out

    cache: dict[tuple[int, int], list[list[dict]]] = {}

    def forests(b: int, d: int) -> list[list[dict]]:
        if (b, d) in cache:
            return cache[(b, d)]
        res: list[list[dict]] = []
        if b == 0:
            res = [[]]
        else:
            seen = set()
            # choose the size of the first tree, then the rest
            for s in range(1, b + 1):
                for t in nodes_of_size(s, d):
                    for rest in forests(b - s, d):
                        f = [t] + rest
                        key = tuple(sorted(canonical_key(x) for x in f))
                        if key not in seen:
                            seen.add(key)
                            res.append(f)
        cache[(b, d)] = res
        return res

    import json

    for f in forests(budget, depth):
        yield json.loads(json.dumps(f))   # (a deep copy that also un-shares equal subtrees)


def assignment(rng: random.Random, tree: dict) -> tuple[dict[int, Fraction], dict[int, Fraction]]:
    """Device powers and unmetered loads (loads only at meters not dedicated to one device type)."""
    vals = [-40, -7, -1, 0, 1, 2, 5, 13, 100]
    power, load = {}, {}
    for n in all_nodes(tree):
        if n["k"] == "meter":
            load[n["id"]] = Fraction(0) if one_kind(n["c"]) is not None else Fraction(rng.choice([0, 1, 3, 8, 21, 50]))
        else:
            power[n["id"]] = Fraction(rng.choice(vals) if rng.random() < 0.7 else rng.randint(-60, 60))
    return power, load


def readings(tree: dict, power: dict[int, Fraction], load: dict[int, Fraction]) -> dict[int, Fraction]:
    """What every component reports: a meter reads the sum of what is below it plus its unmetered load."""
    env: dict[int, Fraction] = {}

    def read(n: dict) -> Fraction:
        if n["k"] == "meter":
            v = load[n["id"]] + sum((read(c) for c in n["c"]), Fraction(0))
        else:
            v = power[n["id"]]
        env[n["id"]] = v
        return v

    for n in tree["succ"]:
        read(n)
    return env


def make_case(rng: random.Random, tree: dict) -> dict:
    power, load = assignment(rng, tree)
    case = dict(tree)
    # sub-pools
    invs = [n for n in all_nodes(tree) if n["k"] == "batInv" and n["bats"]]
    if invs and rng.random() < 0.8:
        chosen = [n for n in invs if rng.random() < 0.5] or [rng.choice(invs)]
        bat = [b for n in chosen for b in n["bats"]]
        if rng.random() < 0.08:          # sometimes only part of an inverter's batteries (generation error)
            bat = bat[:-1] or bat
        case["bat"] = sorted(set(bat))
    else:
        case["bat"] = None
    pvs = ids_of(tree, "pvInv")
    case["pv"] = sorted(p for p in pvs if rng.random() < 0.5) or ([rng.choice(pvs)] if pvs else None) if pvs and rng.random() < 0.8 else None
    evs = ids_of(tree, "ev")
    case["ev"] = (sorted(e for e in evs if rng.random() < 0.5) or None) if evs and rng.random() < 0.5 else None
    case["power"] = {str(k): rat(v) for k, v in sorted(power.items())}
    case["load"] = {str(k): rat(v) for k, v in sorted(load.items())}
    return case


# ----------------------------------------------------------------------------- the real code
_imports: dict[str, Any] = {}


def _imp() -> dict[str, Any]:
    if not _imports:
        import warnings

        warnings.simplefilter("ignore")
        from frequenz.channels import Broadcast
        from frequenz.client.microgrid import Component, ComponentCategory, Connection, InverterType
        from frequenz.sdk._internal._channels import ChannelRegistry
        from frequenz.sdk.microgrid import connection_manager
        from frequenz.sdk.microgrid.component_graph import _MicrogridComponentGraph
        from frequenz.sdk.timeseries.formula_engine import _formula_generators as fg
        from frequenz.sdk.timeseries.formula_engine import _formula_steps as steps
        from frequenz.sdk.timeseries.formula_engine._formula_generators._formula_generator import (
            ComponentNotFound,
            FormulaGenerationError,
            FormulaGeneratorConfig,
        )

        _imports.update(locals())
    return _imports


def comps_conns(tree: dict) -> tuple[set, set]:
    m = _imp()
    C, T = m["ComponentCategory"], m["InverterType"]
    comps = {m["Component"](tree["grid"], C.GRID)}
    conns = set()
    for n, parent in walk(tree["succ"]):
        pid = tree["grid"] if parent is None else parent["id"]
        conns.add(m["Connection"](pid, n["id"]))
        if n["k"] == "meter":
            comps.add(m["Component"](n["id"], C.METER))
        elif n["k"] == "batInv":
            comps.add(m["Component"](n["id"], C.INVERTER, T.BATTERY))
            for b in n["bats"]:
                comps.add(m["Component"](b, C.BATTERY))
                conns.add(m["Connection"](n["id"], b))
        elif n["k"] == "pvInv":
            comps.add(m["Component"](n["id"], C.INVERTER, T.SOLAR))
        elif n["k"] == "ev":
            comps.add(m["Component"](n["id"], C.EV_CHARGER))
        elif n["k"] == "chp":
            comps.add(m["Component"](n["id"], C.CHP))
    return comps, conns


def build_graph(tree: dict) -> Any:
    comps, conns = comps_conns(tree)
    return _imp()["_MicrogridComponentGraph"](comps, conns)


def refresh_graph(graph: Any, tree: dict) -> None:
    """What `ConnectionManager` does when the topology changes: the SAME graph object takes the new topology."""
    comps, conns = comps_conns(tree)
    graph.refresh_from(comps, conns)


def symbolic(engine: Any) -> tuple[dict[int, int], dict[int, tuple[bool, Any]]]:
    """Coefficient of every component id in the engine's postfix steps (+ its fetchers)."""
    m = _imp()
    st = m["steps"]
    stack: list[dict[int, int]] = []
    for s in engine._builder._steps:  # pylint: disable=protected-access
        if isinstance(s, st.MetricFetcher):
            stack.append({int(repr(s)[1:]): 1})
        elif isinstance(s, (st.Adder, st.Subtractor)):
            b, a = stack.pop(), stack.pop()
            sign = 1 if isinstance(s, st.Adder) else -1
            for k, v in b.items():
                a[k] = a.get(k, 0) + sign * v
            stack.append(a)
        else:
            raise RuntimeError(f"unexpected formula step {s!r}")
    if len(stack) != 1:
        raise RuntimeError("formula does not reduce to one value")
    fetchers = {int(k[1:]): (f._nones_are_zeros, f._fallback)  # pylint: disable=protected-access
                for k, f in engine._builder._metric_fetchers.items()}  # pylint: disable=protected-access
    return stack[0], fetchers


def evaluate(engine: Any, env: dict[int, Fraction]) -> Fraction | None:
    """Run the engine's postfix steps with the REAL operator steps on the readings `env`."""
    m = _imp()
    st = m["steps"]
    stack: list[float | None] = []
    for s in engine._builder._steps:  # pylint: disable=protected-access
        if isinstance(s, st.MetricFetcher):
            v = env.get(int(repr(s)[1:]))
            if v is None and s._nones_are_zeros:  # pylint: disable=protected-access
                v = Fraction(0)
            stack.append(None if v is None else float(v))
        else:
            if any(x is None for x in stack[-2:]):
                stack[-2:] = [None]
            else:
                s.apply(stack)
    (res,) = stack
    return None if res is None else Fraction(res)


def canon_formula(engine: Any, with_fallbacks: bool = True) -> dict:
    coeffs, fetchers = symbolic(engine)
    terms = []
    for cid in sorted(coeffs):
        k = coeffs[cid]
        naz, fb = fetchers[cid]
        fbl: list = []
        if fb is not None and with_fallbacks:
            fe = fb._formula_generator.generate()  # pylint: disable=protected-access
            fco, ffe = symbolic(fe)
            if any(v != 1 for v in fco.values()):
                raise RuntimeError("fallback formula is not a plain sum")
            fbl = [[i, bool(ffe[i][0])] for i in sorted(fco)]
        if k == 0:
            continue
        for _ in range(abs(k)):
            terms.append([1 if k > 0 else -1, cid, bool(naz), fbl])
    return {"terms": terms}


FORMULAS = ("grid", "consumer", "producer", "battery", "pv_dfs", "pv", "ev", "chp", "battery_sub", "pv_sub", "ev_sub")


def run_impl(case: dict, graph: Any = None) -> tuple[dict, dict[str, Any]]:
    """Run the real generators on the case's graph (a fresh one unless a long-lived `graph` holding the case's
    topology is given).  Returns (canonical output, engines by name)."""
    m = _imp()
    fg, Cfg = m["fg"], m["FormulaGeneratorConfig"]
    if graph is None:
        graph = build_graph(case)

    class _CM:  # what `connection_manager.get()` returns
        component_graph = graph

    reg = m["ChannelRegistry"](name="c12")
    chan = m["Broadcast"](name="c12-requests")
    sender = chan.new_sender()
    jobs: dict[str, tuple[Any, Any] | None] = {
        "grid": (fg.GridPowerFormula, Cfg()),
        "consumer": (fg.ConsumerPowerFormula, Cfg()),
        "producer": (fg.ProducerPowerFormula, Cfg()),
        "battery": (fg.BatteryPowerFormula, Cfg(component_ids=frozenset(battery_ids(case)), allow_fallback=True)),
        "pv_dfs": (fg.PVPowerFormula, Cfg()),
        "pv": (fg.PVPowerFormula, Cfg(component_ids=frozenset(ids_of(case, "pvInv")))),
        "ev": (fg.EVChargerPowerFormula, Cfg(component_ids=frozenset(ids_of(case, "ev")))),
        "chp": (fg.CHPPowerFormula, Cfg()),
        "battery_sub": None if case.get("bat") is None else
        (fg.BatteryPowerFormula, Cfg(component_ids=frozenset(case["bat"]), allow_fallback=True)),
        "pv_sub": None if case.get("pv") is None else (fg.PVPowerFormula, Cfg(component_ids=frozenset(case["pv"]))),
        "ev_sub": None if case.get("ev") is None else (fg.EVChargerPowerFormula, Cfg(component_ids=frozenset(case["ev"]))),
    }
    out: dict[str, Any] = {}
    engines: dict[str, Any] = {}
    with mock.patch.object(m["connection_manager"], "get", return_value=_CM()):
        for name, job in jobs.items():
            if job is None:
                out[name] = None
                continue
            cls, cfg = job
            try:
                eng = cls("c12", reg, sender, cfg).generate()
                out[name] = canon_formula(eng)
                engines[name] = eng
            except m["ComponentNotFound"]:
                out[name] = {"err": "ComponentNotFound"}
            except m["FormulaGenerationError"]:
                out[name] = {"err": "FormulaGenerationError"}
            except Exception as e:  # pylint: disable=broad-except
                out[name] = {"err": f"Other:{type(e).__name__}"}
    return out, engines


def run_history(case: dict) -> tuple[dict, dict[str, Any]]:
    """ONE graph object goes through case["history"] (all formulas are generated on every topology, then
    `refresh_from` installs the next one) and finally holds the case's own topology: the formulas generated then."""
    hist = case["history"]
    graph = build_graph(hist[0])
    for i, t in enumerate(hist):
        if i > 0:
            refresh_graph(graph, t)
        run_impl({"grid": t["grid"], "succ": t["succ"], "bat": t.get("bat"), "pv": t.get("pv"), "ev": t.get("ev")}, graph)
    refresh_graph(graph, case)
    return run_impl(case, graph)


def model_view(out: dict, regimes: dict) -> dict:
    d = {k: out[k] for k in FORMULAS}
    d["regimes"] = regimes
    return d


def py_regimes(case: dict) -> dict:
    """The regime flags recomputed in Python (cross-checked against the Lean definitions)."""
    single = len(case["succ"]) == 1
    return {
        "grid_meters": all(n["k"] == "meter" and not code_dedicated(n, single) for n in case["succ"]),
        "admissible": admissible(case),
        "NoGridMeterMixedMeter": regime_consumer(case) is not None,
        "bat_shared": None if case.get("bat") is None else regime_subpool(
            case, "batInv", {n["id"] for n in all_nodes(case) if n["k"] == "batInv" and set(n["bats"]) & set(case["bat"])}) is not None,
        "pv_shared": None if case.get("pv") is None else regime_subpool(case, "pvInv", set(case["pv"])) is not None,
    }


# ----------------------------------------------------------------------------- source fingerprints
PINNED: dict[str, str] = {
    "_battery_power_formula.py:_get_fallback_formulas": "23e9b9f8046e",
    "_battery_power_formula.py:generate": "090042020b96",
    "_chp_power_formula.py:_get_chp_meters": "64b97aae9451",
    "_chp_power_formula.py:generate": "4ac4da267e26",
    "_consumer_power_formula.py:_are_grid_meters": "d811d6273df7",
    "_consumer_power_formula.py:_gen_with_grid_meter": "aa1c4fe277ef",
    "_consumer_power_formula.py:_gen_without_grid_meter": "fa51a10ddc24",
    "_consumer_power_formula.py:_get_fallback_formulas": "86976d6c6629",
    "_consumer_power_formula.py:consumer_component": "8687726fed77",
    "_consumer_power_formula.py:generate": "e5575bc6c9ab",
    "_consumer_power_formula.py:non_consumer_component": "f0087d88c779",
    "_ev_charger_power_formula.py:generate": "56d790efb57e",
    "_formula_generator.py:_get_builder": "6b214fefe739",
    "_formula_generator.py:_get_grid_component": "4ef698b2748a",
    "_formula_generator.py:_get_grid_component_successors": "e99de2ab6df5",
    "_formula_generator.py:_get_meter_fallback_components": "070a39c333ec",
    "_formula_generator.py:_get_metric_fallback_components": "4a8dc27c888c",
    "_formula_generator.py:_is_primary_fallback_pair": "a618ab1b322e",
    "_formula_generator.py:generate": "da39a3ee5e6b",
    "_formula_generator.py:namespace": "f2c76cc21de3",
    "_grid_power_formula.py:_get_fallback_formulas": "86976d6c6629",
    "_grid_power_formula.py:generate": "3ccb4d6b7cd1",
    "_grid_power_formula_base.py:_generate": "4ce90af725bf",
    "_grid_power_formula_base.py:_get_fallback_formulas": "da39a3ee5e6b",
    "_producer_power_formula.py:_get_fallback_formulas": "86976d6c6629",
    "_producer_power_formula.py:generate": "7321a9fd2eea",
    "_pv_power_formula.py:_get_fallback_formulas": "2fe691016d5f",
    "_pv_power_formula.py:generate": "46e1be53c1c4",
    "_simple_formula.py:_generate": "810004d4276a",
    "_simple_formula.py:generate": "fae83cf1eeb9",
    "component_graph.py:_validate_graph": "0dd004081b7a",
    "component_graph.py:_validate_graph_root": "412a90d8e01a",
    "component_graph.py:_validate_grid_endpoint": "fa32766dc00a",
    "component_graph.py:_validate_intermediary_components": "e4d9f1c1a7ef",
    "component_graph.py:_validate_leaf_components": "e58ab95f0d63",
    "component_graph.py:dfs": "6b520a1211be",
    "component_graph.py:is_battery_chain": "bfe1ce2b951f",
    "component_graph.py:is_battery_inverter": "2d0bb85c7c81",
    "component_graph.py:is_battery_meter": "6ea153946845",
    "component_graph.py:is_chp": "1e21abfca56d",
    "component_graph.py:is_chp_chain": "095bf32f93b0",
    "component_graph.py:is_chp_meter": "9a73f3e947ca",
    "component_graph.py:is_ev_charger": "1cac84654ebb",
    "component_graph.py:is_ev_charger_chain": "63d4f12023ff",
    "component_graph.py:is_ev_charger_meter": "643414c1221d",
    "component_graph.py:is_grid_meter": "bd9e001e59d0",
    "component_graph.py:is_pv_chain": "4256c87bad4f",
    "component_graph.py:is_pv_inverter": "4920dbab12dd",
    "component_graph.py:is_pv_meter": "d66701a2b954",
    "component_graph.py:validate": "c128edb564e8",
}


def fingerprints() -> dict[str, str]:
    """Normalised-AST fingerprints of the modelled functions (locals renamed, docstrings dropped)."""
    import ast
    import hashlib

    spec = importlib.util.spec_from_file_location("_c12_extractor", VERIF / "tools" / "extractors" / "graph.py")
    ex = importlib.util.module_from_spec(spec)  # type: ignore[arg-type]
    spec.loader.exec_module(ex)  # type: ignore[union-attr]
    out = {}
    for src in ex.SOURCES:
        tree = ast.parse((pathlib.Path(REPO) / src).read_text())
        for f in ast.walk(tree):
            if isinstance(f, ast.FunctionDef) and not f.name.startswith("__"):
                if src.endswith("component_graph.py") and not (f.name.startswith("is_") or f.name in ("dfs", "validate")
                                                                or f.name.startswith("_validate")):
                    continue
                try:
                    text = ex.normalized(f)
                except Exception:  # pylint: disable=broad-except
                    text = ast.dump(f)
                key = f"{pathlib.Path(src).name}:{f.name}"
                out[key] = hashlib.sha1((out.get(key, "") + text).encode()).hexdigest()[:12]
    return out
