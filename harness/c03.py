"""C03 — power-manager target inside usable system bounds, history-free.

Oracle on the REAL `Matryoshka` (independent of the Lean model):
  envelope : every target returned for in-domain system bounds lies in the inclusion bounds and is
             zero or outside the open exclusion zone (zero when there are no inclusion bounds);
  history  : a fresh manager fed only the live proposals (latest per actor, not expired), in several
             shuffled orders, computes the same target.
Correspondence: the same operation script through the Lean driver, outputs compared exactly.
"""
from __future__ import annotations

from fractions import Fraction

from . import matryoshka_gen as g
from .common import Ctx, python_flags

RULE = ("scripts of 4-25 operations (propose/replace, bounds update, expiry, status, adjust) on one Matryoshka; "
        "values from a lattice of anchors ± {0,1/2,1}; every 6th script mixes in tiny non-zero magnitudes (±2^-40, "
        "±2^-54 = 0.1+0.2-0.3, ±2^-60, smallest subnormal, the doubles at/around 1e-9) for preferences, bounds, probes; non-trivial = script contains >=2 live proposals with at "
        "least one bound or an exclusion zone cutting the bounds; distinct by canonical JSON hash")


def envelope_ok(sb: dict, t: Fraction) -> bool:
    if sb["incl"] is None:
        return t == 0
    lo, hi = map(Fraction, sb["incl"])
    if not lo <= t <= hi:
        return False
    if sb["excl"] is not None:
        elo, ehi = map(Fraction, sb["excl"])
        if t != 0 and elo < t < ehi:
            return False
    return True


def check_script(ctx: Ctx, script: dict, shuffles: int) -> dict:
    m, out = g.run_script_impl(script)
    ops = script["ops"]
    tags = set()
    # envelope on every returned target
    for i, (op, o) in enumerate(zip(ops, out["out"])):
        if op["op"] == "calc" and o is not None and g.sb_in_domain(op["sb"]):
            if not envelope_ok(op["sb"], Fraction(o)):
                ctx.violation("envelope", {"ops": ops[: i + 1]}, {"target": o, "sb": op["sb"]})
    # history-freedom, evaluated at the end of the script under the last bounds used
    last_sb = next((op["sb"] for op in reversed(ops) if "sb" in op), None)
    # (a fresh manager refuses proposals when it has no bounds at all — not a history effect)
    if last_sb is not None and g.sb_in_domain(last_sb) and not (last_sb["incl"] is None and last_sb["excl"] is None):
        live = g.live_proposals(ops, len(ops))
        if not live and m._component_buckets:  # noqa: SLF001  (a bucket exists, every proposal has expired)
            final = g.run_op_impl(m, {"op": "calc", "p": None, "sb": last_sb, "must": True})
            stored = g.run_op_impl(m, {"op": "get"})
            if final != "0" or stored != "0":
                ctx.violation("expired proposals stop counting", {"ops": ops, "sb": last_sb},
                              {"recalculated_target": final, "stored_target": stored, "expected": "0"})
            tags.add("all-expired")
        if live:
            final = g.run_op_impl(m, {"op": "calc", "p": None, "sb": last_sb, "must": True})
            rng = ctx.subrng("shuffle", len(ctx.nontrivial_hashes), ctx.evaluations)
            for k in range(shuffles):
                order = list(live)
                rng.shuffle(order)
                m2 = g.new_manager()
                res = None
                for p in order:
                    res = g.run_op_impl(m2, {"op": "calc", "p": p, "sb": last_sb, "must": True})
                if res != final:
                    ctx.violation("history-free", {"ops": ops, "live_order": order, "sb": last_sb},
                                  {"script_target": final, "fresh_target": res})
                    break
            if len(live) >= 2:
                tags.add("live>=2")
            if any(p["lo"] is not None or p["hi"] is not None for p in live):
                tags.add("bounded-proposals")
    if any(op["op"] == "drop" for op in ops):
        tags.add("expiry")
    if any(op["op"] == "calc" and op["p"] is not None and op["p"]["pref"] is not None
           and 0 < abs(Fraction(op["p"]["pref"])) < Fraction(1, 10 ** 6) for op in ops):
        tags.add("tiny-preference")
    if last_sb and last_sb["excl"] not in (None, ["0", "0"]):
        tags.add("excl-zone")
    if last_sb and last_sb["incl"] is None:
        tags.add("no-incl")
    nontrivial = "live>=2" in tags and ("bounded-proposals" in tags or "excl-zone" in tags)
    ctx.case(script, tags=sorted(tags), nontrivial=nontrivial)
    return out


def run(ctx: Ctx) -> None:
    python_flags()
    ctx.rule = RULE
    n = ctx.budget(1500, 40000)
    scripts, impl_outs = [], []
    for corpus_case in load_corpus():
        scripts.append(corpus_case)
        impl_outs.append(check_script(ctx, corpus_case, shuffles=6))
    for i in range(n):
        rng = ctx.subrng("script", i)
        script = g.gen_script(rng, rng.randint(4, 25), in_domain=rng.random() < 0.9, tiny_values=i % 6 == 5)
        scripts.append(script)
        impl_outs.append(check_script(ctx, script, shuffles=3 if ctx.tier == "quick" else 8))
    ctx.compare("Matryoshka", scripts, impl_outs, what="Matryoshka script outputs")
    from . import powerpath  # full-stack stage: the same property through the public pool API (real actors)
    powerpath.run_stage(ctx, {"C03-envelope", "C03-expiry", "C03-history"}, n_quick=40, n_thorough=500)


def load_corpus() -> list[dict]:
    import json
    import pathlib

    d = pathlib.Path(__file__).resolve().parent.parent / "corpus" / "C03"
    return [json.loads(p.read_text()) for p in sorted(d.glob("*.json"))] if d.exists() else []


def replay(ctx: Ctx, data: dict) -> None:
    python_flags()
    case = data.get("case")
    if not case or "ops" not in case:
        return run(ctx)
    out = check_script(ctx, {"ops": case["ops"]}, shuffles=8)
    ctx.compare("Matryoshka", [{"ops": case["ops"]}], [out])
