"""C20 — each component data message reaches every subscribed metric stream exactly once and in order.

Oracle on the REAL `MicrogridApiSource` / `DataSourcingActor` (independent of the Lean model; recomputed from the
script, from what the fake API saw, and from the samples read on the registry channels):

  a channel = a distinct `get_channel_name()` (namespace, component, metric, RENDERED start time) that was requested —
  what a subscriber listens on; requests with the same name are duplicates, requests whose start times are the same
  instant written in different UTC offsets are different channels and each is owed every message;
  per channel whose request is acceptable (known component of a category with data, metric offered by the category),
  with M = the messages the script streams for its component, in order:
    in-order / exactly-once : the samples read are the samples of a contiguous tail M[k:] — (timestamp of the message,
                   value of the metric's attribute in the message) — nothing else, nothing twice, nothing swapped;
    nothing lost : k is at most the index of the first message streamed after both the request was handed to
                   `add_metric` and the API stream of the component was opened (everything from then on is owed,
                   whatever subscriptions are added in between);
    nothing from before : k is at least the index of the first message streamed after the API stream was opened;
  other channels (unknown component, category without data, metric not offered) receive nothing;
  a repeated request does not restart the component's streaming task; an unknown component gets no task.
Correspondence: the trace observed on the real run (requests, messages, task starts, takes — in real order) is run
through the Lean driver; delivered samples per channel, final registrations and buffered counts must be equal, and
no observed event may be impossible in the model.
"""
from __future__ import annotations

import json
import pathlib

from . import data_sourcing_gen as g
from .common import Ctx, python_flags

RULE = ("scripts of 6-45 actions on 1-5 components (meter/inverter/battery/EV charger, sometimes a grid "
        "connection point) run on the real MicrogridApiSource (65 %) or DataSourcingActor (35 %): subscriptions "
        "before the first message, exactly between two messages, back-to-back, 1-3 loop iterations after a message "
        "(fan-out in flight), after 3-12 queued messages, duplicated, for unknown ids, for other metrics / namespaces / "
        "start times (None, distinct instants, one instant written in several UTC offsets / zones = different channel "
        "names although the datetimes are equal, equal renderings from different tzinfo objects = one channel); request "
        "identity everywhere = the registry channel name a subscriber listens on; fake API stream methods optionally "
        "suspend; every message carries exact values (integers, "
        "halves, rarely NaN) in all attributes, pairwise distinct within a message; message CONTENT is unconstrained: "
        "per case the timestamps of a component are increasing / repeated / going backwards / far apart (days, years, "
        "the epoch, before it) / equal across components / all equal / a mix, and with p = 0, 0.15 or 0.4 a message "
        "repeats the values (half of those also the timestamp) of its predecessor.  non-trivial = at least two "
        "accepted subscriptions on one component with a message streamed before the later one; distinct by canonical "
        "JSON hash")


def check_case(ctx: Ctx, case: dict) -> tuple[dict, dict]:
    obs = g.run_impl(case)
    regime = g.regime_of(case)
    log = obs["log"]
    connect_at: dict[int, int] = {}
    for i, e in enumerate(log):
        if e["e"] == "connect" and e["cid"] not in connect_at:
            connect_at[e["cid"]] = i
    first_request: dict[tuple, int] = {}
    for i, e in enumerate(log):
        if e["e"] == "request":
            first_request.setdefault(g.chan_key(e), i)
    msgs: dict[int, list[tuple[int, dict]]] = {}
    for i, e in enumerate(log):
        if e["e"] == "message":
            msgs.setdefault(e["cid"], []).append((i, e))
    tags = {f"mode-{case['mode']}"} | g.message_tags(case)
    if case.get("yield_api"):
        tags.add("api-suspends")
    accepted_per_comp: dict[int, list[int]] = {}
    for ch, got in zip(obs["channels"], obs["delivered"]):
        key = g.chan_key(ch)
        cls = g.request_class(case, ch)
        regime = g.regime_of(case, ch["cid"])   # from the input only: an unsupported request hit this component
        if cls != "ok":
            tags.add(f"request-{cls}")
            if got:
                ctx.violation("ignored-request-received-samples", case, {"channel": ch, "delivered": got[:5]}, regime)
            continue
        M = msgs.get(ch["cid"], [])
        t_sub = first_request.get(key)
        t_conn = connect_at.get(ch["cid"])
        if t_sub is None or t_conn is None:
            # the request never reached add_metric / the stream was never opened: everything streamed is lost
            if M or t_sub is None:
                ctx.violation("lost", case, {"channel": ch, "reason": "request not processed or stream not opened",
                                            "delivered": got[:5]}, regime)
            continue
        accepted_per_comp.setdefault(ch["cid"], []).append(t_sub)
        k_hi = next((j for j, (i, _) in enumerate(M) if i > max(t_sub, t_conn)), len(M))
        k_lo = next((j for j, (i, _) in enumerate(M) if i > t_conn), len(M))
        expected_all = [[e["ts"], g.spec_value(ch["metric"], e["fields"])] for _, e in M]
        n = len(got)
        k = len(M) - n
        if n > len(M) or got != expected_all[k:]:
            clause = "in-order-exactly-once"
        elif k > k_hi:
            clause = "lost"
        elif k < k_lo:
            clause = "delivered-from-before-connection"
        else:
            clause = None
        if clause:
            ctx.violation(clause, case, {"channel": ch, "delivered": got[:8], "n_delivered": n,
                                         "owed_from_index": k_hi, "n_messages": len(M),
                                         "expected_tail": expected_all[k_hi:][:8]}, regime)
        if k < k_hi:
            tags.add("backlog-delivered-to-new-subscriber")
    for r in obs["dup_restarts"][:3]:
        ctx.violation("duplicate-restarted-task", case, {"request": r}, g.regime_of(case, r["cid"]))
    known = {c for c, _ in case["components"]}
    ghost = [c for c in obs["tasks_for"] if c not in known]
    if ghost:
        ctx.violation("unknown-component-got-task", case, {"cids": ghost}, None)
    regime = g.regime_of(case)
    # evidence tags
    reqs = [a for a in case["actions"] if a["a"] == "req"]
    keys = [g.chan_key(a) for a in reqs]
    if len(set(keys)) < len(keys):
        tags.add("duplicate-request")
    acts = case["actions"]
    for i in range(1, len(acts) - 1):
        if acts[i]["a"] == "req" and acts[i - 1]["a"] == "msg" and acts[i + 1]["a"] == "msg":
            tags.add("request-between-two-messages")
        if acts[i]["a"] == "req" and acts[i - 1]["a"] == "req":
            tags.add("back-to-back-requests")
        if acts[i]["a"] == "req" and acts[i - 1]["a"] == "yield" and i >= 2 and acts[i - 2]["a"] == "msg":
            tags.add("request-during-fanout")
    if any(sum(1 for e in log[i:i + 6] if e["e"] == "message") >= 4 for i in range(len(log))):
        tags.add("many-queued")
    if regime:
        tags.add(regime)
    nontrivial = any(len(ts) >= 2 and any(i < max(ts) for i, _ in msgs.get(c, []))
                     for c, ts in accepted_per_comp.items())
    if nontrivial:
        tags.add("handover-with-traffic")
    ctx.case(case, tags=sorted(tags), nontrivial=nontrivial)
    return g.model_case(case, obs), g.impl_out(obs)


def load_corpus() -> list[dict]:
    d = pathlib.Path(__file__).resolve().parent.parent / "corpus" / "C20"
    return [json.loads(p.read_text()) for p in sorted(d.glob("*.json"))] if d.exists() else []


def run(ctx: Ctx) -> None:
    python_flags()
    ctx.rule = RULE
    n = ctx.budget(quick=2000, thorough=25000)
    mcases, impls = [], []
    for case in load_corpus():
        case = {k: v for k, v in case.items() if not k.startswith("_")}
        m, i = check_case(ctx, case)
        mcases.append(m); impls.append(i)
    for i in range(n):
        rng = ctx.subrng("script", i)
        case = g.gen_case(rng, rng.randint(6, 45))
        m, o = check_case(ctx, case)
        mcases.append(m); impls.append(o)
    if ctx.tier == "thorough":
        ex = g.exhaustive_cases(5)
        ctx.note(f"bounded-exhaustive: {len(ex)} action sequences of length <= 5 over "
                 "{same-metric request, new-metric request, duplicate, message, yield} after one subscription; "
                 "those with >= 2 messages also with one repeated timestamp / decreasing timestamps / identical messages")
        for case in ex:
            m, o = check_case(ctx, case)
            mcases.append(m); impls.append(o)
    ctx.compare("DataSourcing", mcases, impls, what="delivered samples / registrations / buffered counts on the observed trace")

    from . import datapath  # full-stack stage: the same property through the real sourcing -> resampling -> formula stack
    datapath.run_stage(ctx, {"C20-once"}, n_quick=40, n_thorough=600)


def replay(ctx: Ctx, data: dict) -> None:
    python_flags()
    case = data.get("case")
    if not case or "actions" not in case:
        return run(ctx)
    ctx.rule = RULE
    m, o = check_case(ctx, case)
    ctx.compare("DataSourcing", [m], [o])
