"""C13 — missing formula inputs propagate as None, or count as zero on request; one sample per timestamp.

Oracle on the REAL engines (independent of the Lean model), for every round of every case: exactly one sample is emitted,
it carries the round's timestamp, and its value is None exactly when some input of the expression is missing
(None / NaN / +inf / -inf) on a stream without `nones_are_zeros`, or the expression (missing inputs of zeroing streams
counted as 0) has a zero divisor; otherwise it is the exact rational value (a clip step clips a present value and
passes a missing one on; a tiny non-zero divisor is not a zero divisor).  Expressions: formula strings (independent
parser) and composition-API trees; every operator x operand position x encoding x flag is enumerated on every run.
A result that is not finite although all inputs are (IEEE overflow, division by a subnormal) must be emitted as None.
Correspondence with the model: as in C05 (tokens, postfix steps, emitted samples — exact).
"""
from __future__ import annotations

from . import formula_gen as g
from .c05 import corpus, gen_cases
from .common import Ctx, python_flags, rat

RULE = ("as C05 (strings of the grammar, composition trees, push_* sequences) with 25% of the input values missing, "
        "encodings None/NaN/+inf/-inf, nones_are_zeros per build and per stream; plus on every run the full grid "
        "operator x {first, second, both, no} operand missing x encoding x flag x zero divisor for every binary and "
        "unary operator, nested once on either side; plus a stream of FINITE inputs (1e200, 1e308, 5e-324, ...) whose IEEE "
        "result is not finite (overflowing products/sums, division by subnormals, inf-inf, inside larger expressions): "
        "None must be emitted — oracle only, the model has no overflow; plus clip steps (push_clipper; fully parenthesised "
        "token streams rendered from a tree that is the oracle's reference): every bound configuration x clip of an input / "
        "of a sum / as left or right operand / of a clip x missing encoding x flag, and random trees with clips; plus tiny "
        "non-zero denominators (2^-40, differences of nearly equal operands): a value must be emitted; plus staggered starts (streams holding backlogs of older samples when the engine starts) "
        "where the skipped samples and those of the synchronised timestamp differ in missing-ness (None/NaN/+-inf vs value, both "
        "directions, flags per build and per stream): None exactly when an input needed for THAT timestamp is missing.  non-trivial = >=2 operators of >=2 kinds (or a grid case)")

ENC = [None, "nan", "inf", "-inf"]


def grid() -> list[dict]:
    """Every operator x operand position x missing encoding x nones_are_zeros flag (+ zero divisors)."""
    cases = []
    ts = 0

    def rounds(ids: list[int]) -> list[dict]:
        nonlocal ts
        out = []
        vals = ["3", "-2", "0"]
        for pattern in range(1 << len(ids)):
            for enc in ENC:
                if pattern == 0 and enc is not None:
                    continue
                env = {}
                for k, i in enumerate(ids):
                    env[str(i)] = enc if (pattern >> k) & 1 else vals[k % 3]
                ts += 1
                out.append({"ts": ts, "env": env})
        # zero divisor / zero operands
        for a, b in (("1", "0"), ("0", "0"), ("0", "4"), ("-4", "-4")):
            ts += 1
            env = {str(i): (a if k == 0 else b) for k, i in enumerate(ids)}
            out.append({"ts": ts, "env": env})
        return out

    for z in (False, True):
        for op in g.BIN_API:
            cases.append({"kind": "ho", "tree": {"b": {"start": 1}, "o": op, "eng": 2}, "z": z, "rounds": rounds([1, 2])})
            cases.append({"kind": "ho", "tree": {"b": {"start": 1}, "o": op, "r": {"b": {"start": 2}, "o": "+", "eng": 3}},
                          "z": z, "rounds": rounds([1, 2, 3])})
            cases.append({"kind": "ho", "tree": {"b": {"b": {"start": 1}, "o": "-", "eng": 3}, "o": op, "eng": 2},
                          "z": z, "rounds": rounds([1, 2, 3])})
            c = rat(2)
            cases.append({"kind": "ho", "tree": {"b": {"start": 1}, "o": op, "const": c}, "z": z, "rounds": rounds([1])})
            cases.append({"kind": "ho", "tree": {"b": {"start": 1}, "o": op, "const": "0"}, "z": z, "rounds": rounds([1])})
        for un in g.UN_API:
            cases.append({"kind": "ho", "tree": {"b": {"start": 1}, "un": un}, "z": z, "rounds": rounds([1])})
            cases.append({"kind": "ho", "tree": {"b": {"b": {"start": 1}, "o": "max", "eng": 2}, "un": un}, "z": z,
                          "rounds": rounds([1, 2])})
        for op in g.OPS_STR:
            cases.append({"kind": "string", "s": f"#1 {op} #2", "z": z, "zids": [], "rounds": rounds([1, 2])})
            cases.append({"kind": "string", "s": f"#1 {op} #2", "z": z, "zids": [2], "rounds": rounds([1, 2])})
            cases.append({"kind": "string", "s": f"#1 {op} (#2 - #3)", "z": z, "zids": [], "rounds": rounds([1, 2, 3])})
            cases.append({"kind": "string", "s": f"#3 * #1 {op} #2", "z": z, "zids": [3], "rounds": rounds([1, 2, 3])})
    return cases


def run(ctx: Ctx) -> None:
    python_flags()
    ctx.rule = RULE
    cases = corpus("C13")
    gap_corpus = [c for c in cases if c.get("gaps")]
    cases = [c for c in cases if not c.get("gaps")]
    cases += grid()
    cases += g.clip_grid()
    cases += g.tiny_cases()
    n = ctx.budget(quick=4000, thorough=50000)
    cases += g.gen_clip_cases(ctx, max(150, n // 12), p_missing=0.3)
    cases += g.backlog_missing_cases(ctx, max(100, n // 20))
    cases += gen_cases(ctx, n, p_missing=0.25, per_id_flags=0.4)
    # results that are not finite although every input is: judged by the oracle only (no exact-rational counterpart)
    g.check_nonfinite(ctx, g.gen_nonfinite_cases(ctx, max(200, n // 10)))
    g.check_gap_cases(ctx, "C13", gap_corpus + g.gap_cases(ctx, max(60, n // 50), p_missing=0.25))
    g.check_cases(ctx, "C13", cases)

    from . import datapath  # full-stack stage: the same property through the real sourcing -> resampling -> formula stack
    datapath.run_stage(ctx, {"C13-none"}, n_quick=40, n_thorough=600)


def replay(ctx: Ctx, data: dict) -> None:
    python_flags()
    case = data.get("case")
    if not isinstance(case, dict) or "kind" not in case:
        return run(ctx)
    if case.get("gaps"):
        return g.check_gap_cases(ctx, "C13", [case])
    if case.get("nonfinite"):
        return g.check_nonfinite(ctx, [case])
    g.check_cases(ctx, "C13", [case])
