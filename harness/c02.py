"""C02 — no inverter or battery group is commanded outside its power bounds; no-headroom groups get zero.

Oracle on the REAL `distribute_power` outputs (exact and float runs) against the `InverterData`/`BatteryData`
given as input, for consistent data and admitted requests (incl. requests exactly at the advertised exclusion
and inclusion bounds), independent of the Lean model:
  inverter-bounds : a non-zero set-point lies in [excl, incl] of its inverter on the request's side;
  group-bounds    : a non-zero group total lies in [excl, incl] of the aggregated battery bounds;
  no-headroom     : a group whose aggregated SoC is at/beyond its limit in the requested direction gets zero.
History: the `BatteryManager` keeps ONE `BatteryDistributionAlgorithm`; sequences of 2-4 `distribute_power` calls on one
instance are generated (between calls only the batteries / only the inverters / both / nothing publish new data —
derated or widened bounds, moved exclusion zones, SoC to a limit; an unchanged component keeps its timestamp; the
next request goes in the same or the opposite direction) and EVERY call is checked with the three clauses against
the data given to THAT call.  A case with a `history` key = the last call of such a sequence (replayable).
Manager level: sequences of requests through ONE real `BatteryManager` (`__init__` replaced by its plain attribute
initialisations + fake caches / tracker / API) with only the inverters / only the batteries / both / nothing publishing a
new message in between: the commanded set-points must be those a fresh manager commands for the LATEST data
(`C02.manager-latest-data`) and satisfy the three clauses for that data (`mgrseq:*` tags; replayable).  New messages may
carry a time stamp that is NOT newer than the previous one (`msg_ts`), and an inverter at any position of its set may report
NaN inclusion bounds: its battery set must then not be commanded at all and no set-point may be NaN (`C02.manager-nan-data`).
Floats: the clauses are also applied to the outputs of the run on IEEE doubles, incl. the cases where it takes another
branch than the exact run (exponents 4–8).
Correspondence: shared with C01 (same driver, same generators); the Lean model is stateless (`C02_history_free`,
tied to the source by `Extracted.Dist.perCallState = []`), so each call of a sequence is compared with the model
of that call alone.
"""
from __future__ import annotations

from . import distribution_gen as g
from .common import Ctx


def run(ctx: Ctx) -> None:
    g.run_property(ctx, "C02")


def replay(ctx: Ctx, data: dict) -> None:
    g.replay_property(ctx, "C02", data)
