"""C15 — distribution results truthfully account for the requested power (battery pools and PV pools).

The REAL `PowerDistributingActor` with the REAL `BatteryManager` / `PVManager` runs on a virtual-time loop
against a fake microgrid (see `distributor_gen.py`): every `set_power` call follows a script — success,
out-of-range rejection, client error, unexpected exception, or no reply before the 5 s timeout (late replies
included) — and the `Result` that arrives on the results channel is compared with the recorded calls.

Oracle (independent of the Lean model), for every `Success` / `PartialFailure`:
  sum          : succeeded_power + failed_power + excess_power = request.power
  failed-power : failed_power = sum of the recorded set-points whose call was rejected / errored / timed out
  disjoint     : succeeded_components ∩ failed_components = ∅
  cover        : succeeded ∪ failed = the components addressed (PV: inverters called; batteries: the
                 batteries behind the inverters called, from the component graph)
  failed-set   : failed_components = the addressed components whose (inverter's) call failed
  no-result    : calls were made but no result was sent
Concurrent cases (`"kind": "concurrent"`): 2-3 requests for DISJOINT component sets of one manager (2-3 PV pools /
2 battery groups), different powers and signs, request k sent `at_us` after the first — while the `set_power`
calls of the others are pending (the actor runs them concurrently).  Every result is matched to its request by
the `request` object it carries, the recorded calls by the components they address, and the clauses above are
checked for EACH result against ITS OWN request; the model is run on each request alone
(`C15_result_independent_of_concurrent_requests`).
Numbers are compared exactly when the case lives on the exact lattice (dyadic set-points, PV values that are
multiples of 120 so that every share is exact), and to 1e-9 relative otherwise (real distribution algorithm).
Correspondence: the same case through `Drivers/Results.lean` (fixed behaviour of the PV manager) — result
type, all fields, and the sequence of `set_power` calls must agree.
"""
from __future__ import annotations

import itertools
import json
import pathlib
import random
from fractions import Fraction

from . import distributor_gen as g
from .common import Ctx, LeanDriverError, canon, lean_run, python_flags, rat

RULE = ("battery: topology (1-4 inverters; 1:1, one inverter with two batteries, two inverters sharing a battery) x "
        "set-point vector (scripted lattice values incl. non-conserving ones, or the real distribution algorithm on "
        "generated component data) x outcome per call from {ok, out-of-range, client error, exception, timeout} with "
        "delays around the timeout; PV: 1-5 inverters with lattice bounds (ties, zero, positive), shuffled order, "
        "request inside/beyond/zero/positive x outcome per call; non-trivial = at least one call failed or excess != 0; "
        "concurrent: 2-3 such PV requests over disjoint inverter sets / 2 battery requests over disjoint groups of one "
        "manager, later ones arriving 0 us - 4.9995 s after the first while its calls are pending, each result checked "
        "against its own request; also two battery requests with different but OVERLAPPING battery sets (both command the "
        "shared inverter; the earlier call there mostly fails / times out after the later set-point was sent), calls "
        "attributed to their request through a context variable; "
        "bounded-exhaustive: all 5^n outcome vectors for n <= 2 (quick) / n <= 4 (thorough); distinct by JSON hash")

BAT_TOPOLOGIES = [
    [[10, [20]]],
    [[10, [20]], [11, [21]]],
    [[10, [20]], [11, [21]], [12, [22]]],
    [[10, [20]], [11, [21]], [12, [22]], [13, [23]]],
    [[10, [20, 21]]],
    [[10, [20]], [11, [20]]],
    [[10, [20]], [11, [21, 22]], [12, [23]]],
    [[10, [20, 21]], [11, [20, 21]], [12, [22]]],
]
WIDE = {"incl": ["-1000000", "1000000"], "excl": ["0", "0"]}
LATTICE_W = [0, 1, -1, 37, -37, 100, -100, 250, -250, 1000, -1000, 4096, -4096]
HALF = Fraction(1, 2)
CANON_DELAY = {"ok": 0, "outOfRange": 1000, "clientError": 1000, "exception": 1000, "timeout": 0}
PV_IDS = [10, 11, 12, 13, 14, 15]
PV_BOUNDS = [0, -120, -240, -600, -1200, -1200, -12000, -120000, 120]


def wide_data(topo: list) -> dict:
    bats = sorted({b for _, bs in topo for b in bs})
    return {"batteries": {str(b): {"soc": "50", "soc_lo": "10", "soc_hi": "90", "cap": "1000", **WIDE} for b in bats},
            "inverters": {str(i): dict(WIDE) for i, _ in topo}}


def canon_calls(vec: tuple[str, ...], ids: list[int]) -> dict:
    return {str(i): {"kind": k, "delay": CANON_DELAY[k]} for i, k in zip(ids, vec)}


def random_call(rng: random.Random) -> dict:
    kind = rng.choice(g.OUTCOMES + ["ok", "ok"])
    if kind == "timeout":
        return {"kind": "timeout", "delay": 0}
    delay = rng.choice([0, 0, 1000, 2_500_000, 4_999_000, 5_001_000, 7_000_000])
    return {"kind": kind, "delay": delay}


# ----------------------------------------------------------------------------- generators
def gen_battery_stub(rng: random.Random, topo: list) -> dict:
    invs = [i for i, _ in topo]
    addressed = invs if rng.random() < 0.8 else rng.sample(invs, rng.randint(1, len(invs)))
    rng.shuffle(addressed)
    dist = []
    for i in addressed:
        w = Fraction(rng.choice(LATTICE_W)) + (HALF if rng.random() < 0.2 else 0)
        dist.append([i, rat(w)])
    remaining = Fraction(rng.choice([0, 0, 0, 1, -1, 100, -100, 512])) + (HALF if rng.random() < 0.1 else 0)
    total = sum(Fraction(w) for _, w in dist) + remaining
    conserving = rng.random() < 0.7
    P = total if conserving else total + rng.choice([1, -1, 10, -110, HALF])
    return {"kind": "battery", "topo": topo, "data": None, "P": rat(P), "stub": {"dist": dist, "remaining": rat(remaining)},
            "calls": {str(i): random_call(rng) for i in addressed if rng.random() < 0.8}, "exact": True,
            "conserving": conserving}


def gen_battery_real(rng: random.Random) -> tuple[list, dict, list[dict]]:
    """A component-data set for a 1:1 topology and a few requests x outcome scripts for the real algorithm."""
    n = rng.randint(1, 4)
    topo = BAT_TOPOLOGIES[n - 1] if rng.random() < 0.8 else BAT_TOPOLOGIES[6]
    bats = sorted({b for _, bs in topo for b in bs})
    data: dict = {"batteries": {}, "inverters": {}}
    for b in bats:
        lo, hi = rng.choice([(10, 90), (20, 80), (0, 100)])
        soc = rng.choice([lo, hi, (lo + hi) // 2, lo + 7, hi - 3])
        ib = rng.choice([500, 1000, 2000])
        ex = rng.choice([0, 0, 0, 50, 100])
        data["batteries"][str(b)] = {"soc": str(soc), "soc_lo": str(lo), "soc_hi": str(hi),
                                     "cap": str(rng.choice([1000, 2000, 5000])), "incl": [str(-ib), str(ib)],
                                     "excl": [str(-ex), str(ex)]}
    for i, _ in topo:
        ib = rng.choice([400, 1000, 3000])
        data["inverters"][str(i)] = {"incl": [str(-ib), str(ib)], "excl": ["0", "0"]}
    cases = []
    for _ in range(rng.randint(3, 6)):
        P = rng.choice([0, 50, -50, 100, -100, 300, -300, 700, -700, 1500, -1500, 5000, -5000, 123, -457])
        working = bats if rng.random() < 0.8 else rng.sample(bats, rng.randint(0, len(bats)))
        cases.append({"kind": "battery", "topo": topo, "data": data, "P": str(P), "stub": None, "working": sorted(working),
                      "calls": {str(i): random_call(rng) for i, _ in topo if rng.random() < 0.7}, "exact": False,
                      "adjust": rng.random() < 0.85})
    return topo, data, cases


def gen_pv(rng: random.Random, n: int | None = None, pool: list[int] | None = None) -> dict:
    pool = pool or PV_IDS
    n = n or rng.randint(1, min(5, len(pool)))
    ids = rng.sample(pool, n)
    invs = [[i, str(rng.choice(PV_BOUNDS))] for i in ids]
    total = sum(int(b) for _, b in invs if int(b) < 0)
    P = rng.choice([0, 120, -120, -240, -360, -600, -1200, total, total - 120, total + 120, total // 120 // 2 * 120,
                    -120 * rng.randint(1, 200)])
    case = {"kind": "pv", "P": str(P), "invs": invs, "calls": {str(i): random_call(rng) for i in ids if rng.random() < 0.8},
            "exact": True}
    if rng.random() < 0.15:  # a requested inverter that is not working is not addressed at all
        extra = [i for i in pool if i not in ids][:1]
        case["extra_ids"] = extra
    if rng.random() < 0.1 and n <= 2:  # (n <= 2: only divisions by 1 and 2, exact in floats)
        case["P"] = rat(-Fraction(1, 2 ** rng.choice([40, 29])))  # around the is_close_to_zero tolerance
    case["working"] = [i for i, _ in invs]
    return case

AT_US = [0, 0, 500, 1000, 1_000_000, 2_500_000, 4_999_500]


def slow_call(rng: random.Random) -> dict:
    """A call that is still pending when the next request arrives (any outcome, incl. never answering)."""
    kind = rng.choice(g.OUTCOMES + ["ok", "ok"])
    return {"kind": kind, "delay": 0 if kind == "timeout" else rng.choice([1000, 1_000_000, 2_500_000, 4_999_000, 7_000_000])}


def gen_concurrent_pv(rng: random.Random) -> dict:
    """2-3 PV pools with disjoint inverter sets addressing the one PVManager at overlapping times."""
    ids = list(PV_IDS)
    rng.shuffle(ids)
    k = rng.choice([2, 2, 3])
    cuts = sorted(rng.sample(range(1, len(ids)), k - 1))
    pools = [ids[a:b] for a, b in zip([0] + cuts, cuts + [len(ids)])]
    reqs = []
    for n, pool in enumerate(pools):
        sub = gen_pv(rng, pool=pool)
        sub.pop("extra_ids", None)
        if rng.random() < 0.7:
            for i, _ in sub["invs"][:1]:
                sub["calls"][str(i)] = slow_call(rng)
        sub["at_us"] = 0 if n == 0 else rng.choice(AT_US)
        reqs.append(sub)
    return {"kind": "concurrent", "mgr": "pv", "reqs": reqs, "exact": True}


def gen_concurrent_battery(rng: random.Random) -> dict:
    """Two battery pools over disjoint inverter/battery groups of one BatteryManager."""
    grid = rng.choice([BAT_TOPOLOGIES[1], BAT_TOPOLOGIES[2], BAT_TOPOLOGIES[3], BAT_TOPOLOGIES[6]])
    cut = rng.randint(1, len(grid) - 1)
    reqs = []
    for n, topo in enumerate([grid[:cut], grid[cut:]]):
        sub = gen_battery_stub(rng, topo)
        if rng.random() < 0.7:
            sub["calls"][str(sub["stub"]["dist"][0][0])] = slow_call(rng)
        sub["at_us"] = 0 if n == 0 else rng.choice(AT_US)
        reqs.append(sub)
    return {"kind": "concurrent", "mgr": "battery", "topo": grid, "data": None, "reqs": reqs, "exact": True}


def gen_concurrent_battery_overlap(rng: random.Random) -> dict:
    """Two battery pools with DIFFERENT BUT OVERLAPPING battery sets (the actor serialises identical sets only): both
    requests command the shared inverter(s); the earlier one's call there is still pending — and mostly fails or times
    out — when the later request sends its own, different set-point."""
    grid = rng.choice([BAT_TOPOLOGIES[1], BAT_TOPOLOGIES[2], BAT_TOPOLOGIES[3]])
    n = len(grid)
    a = rng.randint(2, n)
    first = grid[:a]
    lo = rng.randint(0, a - 1)
    second = grid[lo:rng.randint(lo + 1, n)]
    if second == first:
        second = first[:-1]
    shared = [i for i, _ in first if i in {j for j, _ in second}]
    order = [first, second] if rng.random() < 0.7 else [second, first]
    reqs = []
    for k, topo in enumerate(order):
        sub = gen_battery_stub(rng, topo)
        invs = [i for i, _ in topo]
        have = {i for i, _ in sub["stub"]["dist"]}
        for i in shared:  # the shared inverter is commanded by both, with different set-points
            if i not in have:
                sub["stub"]["dist"].append([i, rat(Fraction(rng.choice(LATTICE_W)) + k)])
        total = sum(Fraction(w) for _, w in sub["stub"]["dist"]) + Fraction(sub["stub"]["remaining"])
        sub["P"], sub["conserving"] = rat(total), True
        sub["calls"] = {c: v for c, v in sub["calls"].items() if int(c) in invs}
        if k == 0 and rng.random() < 0.8:
            kind = rng.choice(["clientError", "outOfRange", "exception", "timeout", "ok"])
            sub["calls"][str(rng.choice(shared))] = {"kind": kind, "delay": 0 if kind == "timeout" else
                                                     rng.choice([1_000_000, 2_500_000, 4_999_000, 7_000_000])}
        sub["at_us"] = 0 if k == 0 else rng.choice([0, 500, 1000, 500_000, 1_000_000, 2_499_000, 4_999_500])
        reqs.append(sub)
    return {"kind": "concurrent", "mgr": "battery", "overlap": True, "topo": grid, "data": None, "reqs": reqs, "exact": True}


def pending_us(sub: dict) -> int:
    """How long the request has `set_power` calls outstanding (from the script; at least one loop turn)."""
    longest = 0
    for c in sub["calls"].values():
        longest = max(longest, g.TIMEOUT_US if g.effective(c) == "timeout" else c["delay"])
    return longest


def overlaps(cc: dict) -> bool:
    """Some request arrives while the calls of another one are pending (from the input only)."""
    rs = cc["reqs"]
    return any(a is not b and a.get("at_us", 0) <= b.get("at_us", 0) <= a.get("at_us", 0) + pending_us(a)
               for a in rs for b in rs)


# ----------------------------------------------------------------------------- oracle
def close(a: float, b: Fraction | float, exact: bool) -> bool:
    if exact:
        return Fraction(a) == Fraction(b)
    return abs(float(a) - float(b)) <= 1e-6 + 1e-9 * max(abs(float(a)), abs(float(b)))


def oracle(ctx: Ctx, case: dict, obs: dict, whole: dict | None = None, index: int | None = None) -> set[str]:
    """`case` = ONE request with its script, `obs` = what was observed for THAT request.  For a request of a
    concurrent case, `whole` is the concurrent case (reported as the failing input) and `index` its position."""
    tags = {case["kind"]}
    exact = bool(case.get("exact"))

    def bad(clause: str, why: str) -> None:
        if whole is None:
            ctx.violation(clause, case, {"why": why, "observed": obs})
        else:
            ctx.violation(clause, whole, {"why": f"request {index} of the concurrent case: {why}", "request": index,
                                          "observed": obs})

    calls = obs["calls"]
    if obs["type"] not in ("Success", "PartialFailure"):
        tags.add("no-result" if obs["type"] is None else "rejected:" + obs["type"])
        if calls and obs["type"] is None:
            bad("no-result", "set_power was called but no result was sent for the request")
        return tags
    tags.add(obs["type"])
    if len({c for c, _ in calls}) != len(calls):
        bad("cover", "a component received more than one set_power call for one request")
    script = {int(k): v for k, v in case["calls"].items()}
    failed_calls = [(c, w) for c, w in calls if g.effective(script.get(c, {"kind": "ok", "delay": 0})) != "ok"]
    for c, _ in calls:
        tags.add("call:" + g.effective(script.get(c, {"kind": "ok", "delay": 0})))
    if any(script.get(c, {"delay": 0})["delay"] >= g.TIMEOUT_US for c, _ in calls):
        tags.add("late-reply")
    P = Fraction(case["P"])
    s, e = obs["succeeded_power"], obs["excess"]
    f = obs.get("failed_power", 0.0)
    succ, fail = set(obs["succeeded"]), set(obs.get("failed", []))
    # sum
    total = (Fraction(s) + Fraction(f) + Fraction(e)) if exact else (s + f + e)
    if not close(total, P, exact):
        bad("sum", f"succeeded {s} + failed {f} + excess {e} = {float(total)} but {float(P)} was requested")
    # failed power
    want_f = sum(Fraction(w) for _, w in failed_calls)
    if not close(f, want_f, exact):
        bad("failed-power", f"failed_power {f}, set-points of the failed calls add up to {float(want_f)}")
    # sets
    if case["kind"] == "battery":
        behind = {i: set(bs) for i, bs in case["topo"]}
        addressed = set().union(*[behind[c] for c, _ in calls]) if calls else set()
        want_failed = set().union(*[behind[c] for c, _ in failed_calls]) if failed_calls else set()
        if len(behind) != len({b for bs in behind.values() for b in bs}):
            tags.add("multi")
    else:
        addressed = {c for c, _ in calls}
        want_failed = {c for c, _ in failed_calls}
    if succ & fail:
        bad("disjoint", f"components both succeeded and failed: {sorted(succ & fail)}")
    if succ | fail != addressed:
        bad("cover", f"succeeded ∪ failed = {sorted(succ | fail)} but the addressed components are {sorted(addressed)}")
    if fail != want_failed:
        bad("failed-set", f"failed components {sorted(fail)}, components whose call failed {sorted(want_failed)}")
    if (obs["type"] == "PartialFailure") != bool(failed_calls):
        bad("failed-set", f"result is {obs['type']} but {len(failed_calls)} call(s) failed")
    if Fraction(e) != 0:
        tags.add("excess")
    if case.get("conserving") is False:
        tags.add("nonconserving-algorithm-output")
    if case.get("stub") is None and case["kind"] == "battery":
        tags.add("real-algorithm")
    return tags


# ----------------------------------------------------------------------------- model side
def model_case(case: dict, obs: dict) -> dict | None:
    if case["kind"] == "battery":
        if obs["dist"] is None:
            return None  # rejected before the algorithm ran (Error / OutOfBounds): nothing to account for
        script = case["calls"]
        return {"kind": "battery", "P": case["P"], "remaining": rat(obs["remaining"]), "timeout": g.TIMEOUT_US,
                "dist": [[i, rat(w)] for i, w in obs["dist"]], "inv_bats": case["topo"],
                "calls": [script.get(str(i), {"kind": "ok", "delay": 0}) for i, _ in obs["dist"]]}
    return {"kind": "pv", "P": case["P"], "timeout": g.TIMEOUT_US,
            "invs": [[i, b] for i, b in case["invs"] if i in case.get("working", [j for j, _ in case["invs"]])],
            "calls": [[int(k), v] for k, v in sorted(case["calls"].items())]}


def impl_out(obs: dict) -> dict:
    out: dict = {"calls": [[c, rat(w)] for c, w in obs["calls"]],
                 "result": obs["type"] if obs["type"] in ("Success", "PartialFailure") else None}
    if out["result"]:
        out.update({"succeeded_power": rat(obs["succeeded_power"]), "succeeded": obs["succeeded"],
                    "failed_power": rat(obs["failed_power"]) if "failed_power" in obs else None,
                    "failed": obs.get("failed"), "excess": rat(obs["excess"])})
    return out


def same(impl: dict, model: dict, exact: bool) -> bool:
    if exact:
        return canon(impl) == canon(model)
    if set(impl) != set(model):
        return False
    for k, v in impl.items():
        m = model[k]
        if k in ("succeeded_power", "failed_power", "excess"):
            if (v is None) != (m is None) or (v is not None and not close(float(Fraction(v)), Fraction(m), False)):
                return False
        elif k == "calls":
            if [c for c, _ in v] != [c for c, _ in m] or any(
                    not close(float(Fraction(a)), Fraction(b), False) for (_, a), (_, b) in zip(v, m)):
                return False
        elif v != m:
            return False
    return True


class Batch:
    """Cases are run in groups that share one fake microgrid; model comparison happens once at the end."""

    def __init__(self, ctx: Ctx) -> None:
        self.ctx = ctx
        self.mcases: list[dict] = []
        self.impls: list[dict] = []
        self.exact: list[bool] = []

    def run_group(self, kind: str, topo: dict, data: dict, cases: list[dict]) -> None:
        observed = g.run_manager_cases(kind, topo, data, cases)
        for case, obs in zip(cases, observed):
            if case["kind"] == "concurrent":
                self.concurrent(case, obs)
                continue
            tags = oracle(self.ctx, case, obs)
            nontrivial = any(t.startswith("call:") and t != "call:ok" for t in tags) or "excess" in tags
            self.ctx.case(case, tags=sorted(tags), nontrivial=nontrivial)
            mc = model_case(case, obs)
            if mc is not None:
                self.mcases.append(mc)
                self.impls.append(impl_out(obs))
                self.exact.append(bool(case.get("exact")))

    def concurrent(self, case: dict, obs: dict) -> None:
        tags = {"concurrent", "concurrent:" + case["mgr"], f"concurrent:{len(case['reqs'])}-requests"}
        if overlaps(case):
            tags.add("concurrent:arrival-while-calls-pending")
        if any(Fraction(r["P"]) > 0 for r in case["reqs"]) and any(Fraction(r["P"]) < 0 for r in case["reqs"]):
            tags.add("concurrent:mixed-signs")
        if case.get("overlap"):
            tags.add("concurrent:overlapping-sets")
        if obs.get("unattributed_calls"):
            self.ctx.violation("cover", case, {"why": f"{obs['unattributed_calls']} set_power call(s) made outside any of the "
                                                      "requests", "observed": obs})
        if obs["stray_results"]:
            self.ctx.violation("no-result", case, {"why": f"{obs['stray_results']} result(s) that belong to none of the "
                                                          "requests (or a second result for one request)", "observed": obs})
        nontrivial = False
        for k, (sub, o) in enumerate(zip(case["reqs"], obs["concurrent"])):
            sub = dict(sub, exact=case.get("exact", sub.get("exact")))
            t = oracle(self.ctx, sub, o, whole=case, index=k)
            nontrivial = nontrivial or any(x.startswith("call:") and x != "call:ok" for x in t) or "excess" in t
            tags |= {x for x in t if x not in ("pv", "battery")}
            mc = model_case(sub, o)
            if mc is not None:
                self.mcases.append(mc)
                self.impls.append(impl_out(o))
                self.exact.append(bool(sub.get("exact")))
        self.ctx.case(case, tags=sorted(tags), nontrivial=nontrivial or "concurrent:arrival-while-calls-pending" in tags)

    def add(self, cases: list[dict]) -> None:
        """Group by fake microgrid and run."""
        groups: dict[str, list[dict]] = {}
        for c in cases:
            key = "pv" if "pv" in (c["kind"], c.get("mgr")) else canon([c["topo"], c["data"]])
            groups.setdefault(key, []).append(c)
        for key, cs in groups.items():
            for k in range(0, len(cs), 150):
                chunk = cs[k:k + 150]
                if key == "pv":
                    self.run_group("pv", {"invs": PV_IDS}, {}, chunk)
                else:
                    topo = chunk[0]["topo"]
                    self.run_group("battery", {"inv_bats": topo}, chunk[0]["data"] or wide_data(topo), chunk)

    def compare(self) -> None:
        ctx = self.ctx
        if not ctx.model_available or not self.mcases:
            return
        try:
            outs = lean_run("Results", self.mcases)
        except LeanDriverError as err:
            ctx.model_available = False
            ctx.extra["driver_error"] = str(err)[:1500]
            ctx.mismatch({"driver": "Results"}, None, None, f"model driver unavailable: {str(err)[:300]}")
            return
        ctx.extra["compared_exactly"] = ctx.extra.get("compared_exactly", 0) + sum(self.exact)
        ctx.extra["compared_to_1e-9"] = ctx.extra.get("compared_to_1e-9", 0) + (len(self.exact) - sum(self.exact))
        for c, i, m, ex in zip(self.mcases, self.impls, outs, self.exact):
            ctx.traces_validated += 1
            if not same(i, m, ex):
                ctx.mismatch(c, i, m, "Result fields / set_power calls")


# ----------------------------------------------------------------------------- bounded-exhaustive scopes
def exhaustive_cases(max_n: int) -> list[dict]:
    cases: list[dict] = []
    # batteries: fixed, non-trivial set-point vectors on 1:1 topologies and on the multi topologies
    vectors = {1: [["300"]], 2: [["300", "-100"], ["1/2", "250"]], 3: [["300", "-100", "37"]],
               4: [["300", "-100", "37", "4096"]]}
    for n in range(1, max_n + 1):
        topos = [BAT_TOPOLOGIES[n - 1]] + [t for t in BAT_TOPOLOGIES[4:] if len(t) == n]
        for topo in topos:
            invs = [i for i, _ in topo]
            for ws in vectors[n]:
                dist = [[i, w] for i, w in zip(invs, ws)]
                P = sum(Fraction(w) for w in ws) + 10
                for vec in itertools.product(g.OUTCOMES, repeat=n):
                    cases.append({"kind": "battery", "topo": topo, "data": None, "P": rat(P),
                                  "stub": {"dist": dist, "remaining": "10"}, "calls": canon_calls(vec, invs),
                                  "exact": True, "conserving": True})
    # PV: one request inside the bounds (with a tie) and one beyond them
    pv_sets = {1: [["-1200"]], 2: [["-1200", "-240"]], 3: [["-1200", "-240", "-1200"]], 4: [["-600", "-240", "-1200", "-240"]]}
    for n in range(1, max_n + 1):
        ids = PV_IDS[:n]
        for bounds in pv_sets[n]:
            total = sum(int(b) for b in bounds)
            for P in ([total // 240 * 120, total - 360] if n <= 3 else [total // 240 * 120]):
                for vec in itertools.product(g.OUTCOMES, repeat=n):
                    cases.append({"kind": "pv", "P": str(P), "invs": [[i, b] for i, b in zip(ids, bounds)],
                                  "working": ids, "calls": canon_calls(vec, ids), "exact": True})
    return cases


def load_corpus() -> list[dict]:
    d = pathlib.Path(__file__).resolve().parent.parent / "corpus" / "C15"
    return [json.loads(p.read_text()) for p in sorted(d.glob("*.json"))] if d.exists() else []


def run(ctx: Ctx) -> None:
    python_flags()
    ctx.rule = RULE
    batch = Batch(ctx)
    batch.add(load_corpus())
    n = ctx.budget(600, 20000)
    cases: list[dict] = []
    for k in range(n):
        rng = ctx.subrng("case", k)
        x = k % 10
        if k % 5 == 0:
            cases.append(gen_concurrent_pv(rng) if k % 10 == 0 else
                         (gen_concurrent_battery_overlap(rng) if k % 20 == 5 else gen_concurrent_battery(rng)))
        elif x < 4:
            cases.append(gen_pv(rng))
        elif x < 8:
            cases.append(gen_battery_stub(rng, rng.choice(BAT_TOPOLOGIES)))
        else:
            cases.extend(gen_battery_real(rng)[2])
    batch.add(cases)
    scope = 2 if ctx.tier == "quick" else 4
    batch.add(exhaustive_cases(scope))
    ctx.extra["exhaustive_scope"] = f"all 5^n outcome vectors for n <= {scope} (battery 1:1 and multi topologies, PV)"
    batch.compare()


def replay(ctx: Ctx, data: dict) -> None:
    python_flags()
    case = data.get("case")
    if not case or "kind" not in case or (case["kind"] != "concurrent" and (
            "P" not in case or ("topo" not in case and "invs" not in case))):
        return run(ctx)
    batch = Batch(ctx)
    batch.add([case])
    batch.compare()
