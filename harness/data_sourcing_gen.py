"""Generator and real-code runner for C20 (DataSourcingActor / MicrogridApiSource).

A *case* is a script of harness actions executed one by one on an `async_solipsism` loop against the REAL
`MicrogridApiSource` (mode "direct": `add_metric` is awaited) or the REAL `DataSourcingActor` (mode "actor":
requests travel through its request channel):

    {"a":"req","ns":str,"cid":int,"metric":NAME,"start":null|µs|[µs,offset min]|[µs,"Zone"]}   create the registry
                                                                      receiver (by channel name), then request
        optional "derive": [i, "copy"|"inplace"]: the request OBJECT is not constructed afresh but derived from the
        object of the earlier request action i after its channel name was read — `copy.copy` + field assignment, or
        (direct mode, object not kept by the SDK) mutation in place; the subscriber side always uses a fresh object
    {"a":"msg","cid":int,"ts":µs,"fields":[[attr,[rat|null,…]],…]}     the fake API streams one data message
    {"a":"fail_api","n":k}                                            once the SDK is idle: the next k `components()` calls raise
    {"a":"sleep","us":µs}                                             `await asyncio.sleep` on the virtual clock
    {"a":"yield","n":k}                                               k × `await asyncio.sleep(0)`

The microgrid API is a fake client: `components()` lists the case's components, `meter_data`/`inverter_data`/
`battery_data`/`ev_charger_data(cid)` hand out a receiver of a per-component `Broadcast` channel (and, like the real
client, refuse a component of another category).  Messages are the real `frequenz.client.microgrid` data classes
(built with `tests/utils/component_data_wrapper.py`).

While the script runs, the fake API records what an API can see — `connect` (a stream receiver was handed out),
`start` (a task that has not polled the stream before polls it), `take` (a message is consumed from the stream) —
and `add_metric` is wrapped to record `request`.  The resulting trace, in real order, is what the Lean model is run
on; the registry channels are read by harness receivers created at request time.
"""
from __future__ import annotations

import asyncio
import random
from datetime import datetime, timedelta, timezone
from fractions import Fraction
from typing import Any
from unittest import mock

from .common import rat

EPOCH = datetime(1970, 1, 1, tzinfo=timezone.utc)
T0_US = 1_700_000_000_000_000

# ---- specification side (hand-written, independent of the source tables) ---------------------------------------
# numeric attributes of the data classes: name -> arity (1 = scalar, 3 = per phase)
ATTRS: dict[str, dict[str, int]] = {
    "METER": {"active_power": 1, "active_power_per_phase": 3, "reactive_power": 1, "reactive_power_per_phase": 3,
              "current_per_phase": 3, "voltage_per_phase": 3, "frequency": 1},
    "INVERTER": {"active_power": 1, "active_power_per_phase": 3, "current_per_phase": 3, "voltage_per_phase": 3,
                 "active_power_inclusion_lower_bound": 1, "active_power_exclusion_lower_bound": 1,
                 "active_power_inclusion_upper_bound": 1, "active_power_exclusion_upper_bound": 1,
                 "reactive_power": 1, "reactive_power_per_phase": 3, "frequency": 1},
    "BATTERY": {"soc": 1, "soc_lower_bound": 1, "soc_upper_bound": 1, "capacity": 1,
                "power_inclusion_lower_bound": 1, "power_exclusion_lower_bound": 1,
                "power_inclusion_upper_bound": 1, "power_exclusion_upper_bound": 1, "temperature": 1},
    "EV_CHARGER": {"active_power": 1, "active_power_per_phase": 3, "current_per_phase": 3, "voltage_per_phase": 3,
                   "active_power_inclusion_lower_bound": 1, "active_power_exclusion_lower_bound": 1,
                   "active_power_inclusion_upper_bound": 1, "active_power_exclusion_upper_bound": 1,
                   "reactive_power": 1, "reactive_power_per_phase": 3, "frequency": 1},
}
_PQ = ["ACTIVE_POWER", "ACTIVE_POWER_PHASE_1", "ACTIVE_POWER_PHASE_2", "ACTIVE_POWER_PHASE_3",
       "REACTIVE_POWER", "REACTIVE_POWER_PHASE_1", "REACTIVE_POWER_PHASE_2", "REACTIVE_POWER_PHASE_3",
       "CURRENT_PHASE_1", "CURRENT_PHASE_2", "CURRENT_PHASE_3",
       "VOLTAGE_PHASE_1", "VOLTAGE_PHASE_2", "VOLTAGE_PHASE_3", "FREQUENCY"]
_AP_BOUNDS = ["ACTIVE_POWER_INCLUSION_LOWER_BOUND", "ACTIVE_POWER_EXCLUSION_LOWER_BOUND",
              "ACTIVE_POWER_EXCLUSION_UPPER_BOUND", "ACTIVE_POWER_INCLUSION_UPPER_BOUND"]
# the metrics each category offers as a stream (documented behaviour of the data sourcing actor)
SPEC_METRICS: dict[str, list[str]] = {
    "METER": list(_PQ),
    "INVERTER": _PQ + _AP_BOUNDS,
    "EV_CHARGER": list(_PQ),
    "BATTERY": ["SOC", "SOC_LOWER_BOUND", "SOC_UPPER_BOUND", "CAPACITY", "POWER_INCLUSION_LOWER_BOUND",
                "POWER_EXCLUSION_LOWER_BOUND", "POWER_EXCLUSION_UPPER_BOUND", "POWER_INCLUSION_UPPER_BOUND",
                "TEMPERATURE"],
}
ALL_METRICS = sorted({m for ms in SPEC_METRICS.values() for m in ms})
API_METHOD = {"METER": "meter_data", "INVERTER": "inverter_data", "BATTERY": "battery_data",
              "EV_CHARGER": "ev_charger_data"}
DATA_CATEGORIES = list(API_METHOD)
STANDARD_COMPONENTS = [[4, "METER"], [6, "INVERTER"], [9, "BATTERY"], [12, "EV_CHARGER"]]


def canonical_attr(metric: str) -> tuple[str, int | None]:
    """`FOO_PHASE_k` -> (`foo_per_phase`, k-1); `FOO` -> (`foo`, None)."""
    for k in (1, 2, 3):
        suf = f"_PHASE_{k}"
        if metric.endswith(suf):
            return metric[: -len(suf)].lower() + "_per_phase", k - 1
    return metric.lower(), None


def spec_value(metric: str, fields: list) -> str | None:
    """The value of `metric` in a message given as the case's `fields` list (rational string, None = NaN)."""
    attr, idx = canonical_attr(metric)
    for name, vals in fields:
        if name == attr:
            return vals[idx or 0]
    raise KeyError(attr)


def start_dt(spec: Any) -> datetime | None:
    """`start_time` of a request from its case form: None | µs (UTC) | [µs, offset minutes] | [µs, "Zone/Name"] —
    an instant and the zone it is WRITTEN in."""
    if spec is None:
        return None
    if isinstance(spec, int):
        return EPOCH + timedelta(microseconds=spec)
    us, zone = spec
    if isinstance(zone, str):
        from zoneinfo import ZoneInfo
        tz: Any = ZoneInfo(zone)
    else:
        tz = timezone(timedelta(minutes=zone))
    return (EPOCH + timedelta(microseconds=us)).astimezone(tz)


def start_str(spec: Any) -> str | None:
    """How the start time appears in the channel name (`str(datetime)`); already-rendered strings pass through."""
    if spec is None or isinstance(spec, str):
        return spec
    return str(start_dt(spec))


def chan_key(r: dict) -> tuple:
    """Identity of a request = the registry channel a subscriber of it listens on (`get_channel_name()`:
    namespace, component id, metric name, rendered start time).  Equal instants written in different UTC offsets are
    DIFFERENT channels; equal renderings (also from different tzinfo objects) are the same channel."""
    return (r["ns"], r["cid"], r["metric"], start_str(r["start"]))


def chan_json(r: dict) -> dict:
    return {"ns": r["ns"], "cid": r["cid"], "metric": r["metric"], "start": start_str(r["start"])}


def category_of(case: dict, cid: int) -> str | None:
    for c, cat in case["components"]:
        if c == cid:
            return cat
    return None


def request_class(case: dict, r: dict) -> str:
    """accepted-able / unknown / nodata / unsupported — from the input only."""
    cat = category_of(case, r["cid"])
    if cat is None:
        return "unknown"
    if cat not in SPEC_METRICS:
        return "nodata"
    if r["metric"] not in SPEC_METRICS[cat]:
        return "unsupported"
    return "ok"


def regime_of(case: dict, cid: int | None = None) -> str | None:
    """Input-only regime tag: the script asks component `cid` (any component when None) for a metric that its
    category does not offer."""
    for a in case["actions"]:
        if a["a"] == "req" and (cid is None or a["cid"] == cid) and request_class(case, a) == "unsupported":
            return "unsupported_metric"
    return None


# ---- generator ---------------------------------------------------------------------------------------------------
# start times of requests (case form, see `start_dt`): two instants; T0 written in UTC, +01:00 (fixed offset and a
# zone with that offset in November 2023: SAME rendering), -05:00, +05:30; T0 + 1 h written in +01:00 (other instant
# whose wall-clock digits equal those of T0 in +02:00)
START_POOL: list = [None, T0_US, T0_US + 1_000_000, [T0_US, 0], [T0_US, 60], [T0_US, "Europe/Berlin"], [T0_US, -300],
                    [T0_US, 330], [T0_US, "Asia/Kolkata"], [T0_US + 3_600_000_000, 60], [T0_US, 120]]

TS_MODES = ["increasing", "repeat", "backwards", "far", "shared", "constant", "mixed"]
TS_WEIGHTS = [30, 18, 12, 8, 10, 6, 16]
DAY_US = 86_400_000_000


def next_ts(rng: random.Random, mode: str, k: int, prev: int | None) -> int:
    """Timestamp (µs) of the k-th message of a component whose previous message carried `prev`.

    increasing: as a well-behaved component (strictly increasing, ~1 s apart);   repeat: equal to the previous one
    half of the time;   backwards: earlier than the previous one half of the time (by 1 µs … 1 h);   far: jumps of
    1 µs … 400 days in either direction, the epoch itself, a time before the epoch;   shared: a function of k only, so
    the k-th messages of all components coincide;   constant: one timestamp for every message;   mixed: any of these
    per message."""
    base = T0_US + k * 1_000_000 + (k * 137) % 1000
    if mode == "mixed":
        mode = rng.choice(TS_MODES[:-1])
    if mode == "shared":
        return T0_US + k * 1_000_000
    if mode == "constant":
        return T0_US + 1_000_000
    if prev is None or mode == "increasing":
        return base
    if mode == "repeat":
        return prev if rng.random() < 0.5 else max(base, prev + 1)
    if mode == "backwards":
        if rng.random() < 0.5:
            return prev - rng.choice([1, 999, 1_000_000, 3_600_000_000])
        return prev + rng.choice([1, 1_000_000])
    if mode == "far":
        return rng.choice([prev + 1, prev + DAY_US, prev + 400 * DAY_US, prev - 400 * DAY_US, prev - DAY_US,
                           0, -1_000_001, T0_US + 20 * 365 * DAY_US])
    raise ValueError(mode)


def message_tags(case: dict) -> set[str]:
    """Evidence tags about the content of the streamed messages (from the input only)."""
    tags: set[str] = set()
    per: dict[int, list[dict]] = {}
    for a in case["actions"]:
        if a["a"] == "msg":
            per.setdefault(a["cid"], []).append(a)
    for ms in per.values():
        for x, y in zip(ms, ms[1:]):
            if y["ts"] == x["ts"]:
                tags.add("ts-repeated")
            if y["ts"] < x["ts"]:
                tags.add("ts-backwards")
            if abs(y["ts"] - x["ts"]) >= DAY_US:
                tags.add("ts-far-apart")
            if y["fields"] == x["fields"]:
                tags.add("values-repeated")
                if y["ts"] == x["ts"]:
                    tags.add("identical-consecutive-messages")
        if any(m["ts"] <= 0 for m in ms):
            tags.add("ts-at-or-before-epoch")
    for a in case["actions"]:
        if a["a"] == "req" and a.get("derive"):
            tags.add(f"request-object-{a['derive'][1]}-of-earlier")
        if a["a"] == "fail_api":
            tags.add("actor-restart-after-api-failure")
    reqs = [a for a in case["actions"] if a["a"] == "req" and a["start"] is not None]
    by_list: dict[tuple, list] = {}
    for a in reqs:
        by_list.setdefault((a["ns"], a["cid"], a["metric"]), []).append(a)
    if reqs:
        tags.add("start-time-set")
    for rs in by_list.values():
        for i, x in enumerate(rs):
            for y in rs[i + 1:]:
                same_instant = start_dt(x["start"]) == start_dt(y["start"])
                same_name = start_str(x["start"]) == start_str(y["start"])
                if same_instant and not same_name:
                    tags.add("start-same-instant-other-offset")     # equal datetimes, different channels
                if same_name and x["start"] != y["start"]:
                    tags.add("start-same-rendering-other-tzinfo")   # one channel
                if same_name and x["start"] == y["start"]:
                    tags.add("start-repeated")
                if not same_instant:
                    tags.add("start-distinct-instants")
    seen: dict[int, int] = {}
    for cid, ms in per.items():
        for m in ms:
            if seen.setdefault(m["ts"], cid) != cid:
                tags.add("ts-shared-across-components")
    return tags


def gen_fields(rng: random.Random, cat: str, k: int) -> list:
    """All numeric attributes of the category, pairwise distinct exact values (integers and halves), rarely NaN."""
    out = []
    j = 0
    for attr, arity in ATTRS[cat].items():
        vals = []
        for _ in range(arity):
            j += 1
            if rng.random() < 0.02:
                vals.append(None)
            else:
                v = Fraction(k * 64 + j) * (1 if rng.random() < 0.8 else -1)
                if rng.random() < 0.25:
                    v += Fraction(1, 2)
                vals.append(rat(v))
        out.append([attr, vals])
    return out


def gen_case(rng: random.Random, size: int, allow_unsupported: bool = True) -> dict:
    comps = [c for c in STANDARD_COMPONENTS if rng.random() < 0.6] or [rng.choice(STANDARD_COMPONENTS)]
    if rng.random() < 0.15:
        comps = comps + [[1, "GRID"]]
    data_cids = [c for c, cat in comps if cat in SPEC_METRICS]
    focus = rng.choice(data_cids)  # most of the action happens on one component
    case: dict = {"mode": "actor" if rng.random() < 0.35 else "direct", "yield_api": rng.random() < 0.3,
                  "components": comps, "actions": []}
    acts = case["actions"]
    seq = {c: 0 for c in data_cids}
    requested: list[dict] = []
    namespaces = ["a", "b", "c"]
    # The property says nothing about the CONTENT of a message: timestamps may repeat, go backwards, jump, coincide
    # across components, and a message may be byte-identical to its predecessor — each is still owed exactly once.
    ts_rng = random.Random(rng.getrandbits(64))      # separate stream: the script shapes stay those of the seed
    ts_mode = ts_rng.choices(TS_MODES, weights=TS_WEIGHTS)[0]
    clone_p = ts_rng.choice([0.0, 0.0, 0.15, 0.4])   # P(values of a message = values of its predecessor)
    last_ts: dict[int, int] = {}
    last_fields: dict[int, list] = {}
    start_w = ts_rng.choice([6, 6, 30, 60])          # some cases are mostly about start times
    derive_p = ts_rng.choice([0.0, 0.0, 0.2, 0.5])   # P(a request object is derived from an earlier one)
    crash_p = 0.08 if case["mode"] == "actor" and ts_rng.random() < 0.5 else 0.0
    stored: dict[int, bool] = {}                     # action index -> the SDK keeps this request object
    seen_keys: set[tuple] = set()

    def msg(cid: int) -> None:
        seq[cid] += 1
        k = seq[cid]
        cat = category_of(case, cid)
        ts = next_ts(ts_rng, ts_mode, k, last_ts.get(cid))
        if cid in last_fields and ts_rng.random() < clone_p:
            fields = [[a, list(vs)] for a, vs in last_fields[cid]]
            if ts_rng.random() < 0.5:
                ts = last_ts[cid]                    # the whole message is a copy of the previous one
        else:
            fields = gen_fields(rng, cat, k)
        last_ts[cid], last_fields[cid] = ts, fields
        acts.append({"a": "msg", "cid": cid, "ts": ts, "fields": fields})

    def req(kind: str | None = None) -> None:
        kind = kind or rng.choices(["new", "dup", "unknown", "unsupported", "nodata", "start"],
                                   weights=[60, 15, 6, 5 if allow_unsupported else 0, 3, start_w])[0]
        cid = focus if rng.random() < 0.75 else rng.choice(data_cids)
        cat = category_of(case, cid)
        if kind == "dup" and requested:
            r = dict(rng.choice(requested))
        elif kind == "unknown":
            r = {"ns": rng.choice(namespaces), "cid": rng.choice([77, 5, 0]), "metric": rng.choice(ALL_METRICS),
                 "start": None}
        elif kind == "unsupported":
            bad = [m for m in ALL_METRICS if m not in SPEC_METRICS[cat]]
            r = {"ns": rng.choice(namespaces), "cid": cid, "metric": rng.choice(bad), "start": None}
        elif kind == "nodata" and any(c == 1 for c, _ in comps):
            r = {"ns": rng.choice(namespaces), "cid": 1, "metric": "ACTIVE_POWER", "start": None}
        elif kind == "start":
            # start times: None vs set, distinct instants, ONE instant written in several UTC offsets / zones (different
            # channel names although the datetimes compare equal), equal renderings from different tzinfo objects and
            # plain repeats (the same channel: duplicates).  One namespace / metric so that they meet in one list.
            ms = SPEC_METRICS[cat]
            r = {"ns": namespaces[0] if ts_rng.random() < 0.8 else ts_rng.choice(namespaces), "cid": cid,
                 "metric": ms[0] if ts_rng.random() < 0.8 else ts_rng.choice(ms[:3]), "start": ts_rng.choice(START_POOL)}
        else:
            ms = SPEC_METRICS[cat]
            # few metrics and namespaces so that same-metric lists, new dict keys and duplicates all occur
            metric = rng.choice(ms[:3] + [rng.choice(ms)])
            r = {"ns": rng.choice(namespaces), "cid": cid, "metric": metric, "start": None}
        act = {"a": "req", **r}
        prev = [i for i, a in enumerate(acts) if a["a"] == "req"]
        if prev and ts_rng.random() < derive_p:
            # the client re-uses an earlier request OBJECT (whose channel name was already read)
            src_i = ts_rng.choice(prev)
            how = "copy"
            if case["mode"] == "direct" and not stored[src_i] and ts_rng.random() < 0.4:
                how = "inplace"      # an object the SDK did not keep (duplicate / unknown / unsupported request)
            act["derive"] = [src_i, how]
            if how == "inplace":
                stored[src_i] = True   # do not mutate it a second time after this submission
        key = chan_key(r)
        stored[len(acts)] = request_class(case, r) == "ok" and key not in seen_keys
        if request_class(case, r) == "ok":
            seen_keys.add(key)
        acts.append(act)
        requested.append(r)

    def crash_episode() -> None:
        """The API fails while the actor resolves an unknown component id: `_run` raises, the `Actor` base class restarts
        it after RESTART_DELAY (2 s, virtual clock); afterwards identical requests are repeated."""
        acts.append({"a": "fail_api", "n": 1})
        acts.append({"a": "req", "ns": "z", "cid": ts_rng.choice([77, 5, 0]), "metric": "ACTIVE_POWER", "start": None})
        stored[len(acts) - 1] = False
        if ts_rng.random() < 0.5:
            msg(focus)
        acts.append({"a": "sleep", "us": ts_rng.choice([2_000_001, 2_500_000, 5_000_000])})
        ok = [r for r in requested if request_class(case, r) == "ok"]
        for _ in range(ts_rng.randint(1, 3)):
            if ok:
                rr = dict(ts_rng.choice(ok))
                acts.append({"a": "req", **rr})
                stored[len(acts) - 1] = False
                requested.append(rr)
        msg(focus)

    def yld(choices=(0, 1, 1, 2, 3, 5)) -> None:
        n = rng.choice(choices)
        if n:
            acts.append({"a": "yield", "n": n})

    # opening: messages before anybody subscribed (nobody may see them), first subscription, maybe immediate data
    if rng.random() < 0.3:
        msg(focus)
    req("new")
    yld((0, 0, 1, 2, 5))
    while len(acts) < size:
        p = rng.random()
        if p < 0.30:      # plain traffic
            msg(focus if rng.random() < 0.8 else rng.choice(data_cids))
            yld()
        elif p < 0.45:    # request exactly between two messages, no scheduling point in between
            msg(focus); req(); msg(focus)
            yld()
        elif p < 0.55:    # back-to-back requests
            for _ in range(rng.randint(2, 4)):
                req()
            yld()
        elif p < 0.70:    # request while a message is being fanned out (1..3 loop iterations after the message)
            msg(focus)
            acts.append({"a": "yield", "n": rng.choice([1, 2, 3])})
            req()
            yld()
        elif p < 0.80:    # many messages queued, then a request, then more
            for _ in range(rng.randint(3, 12)):
                msg(focus)
            req()
            for _ in range(rng.randint(0, 3)):
                msg(focus)
            yld()
        elif p < 0.90:
            req()
            yld()
        else:
            yld((1, 2, 5, 8))
        if crash_p and ts_rng.random() < crash_p:
            crash_episode()
    return case


def exhaustive_cases(max_len: int) -> list[dict]:
    """All action sequences up to `max_len` over a small alphabet on one meter (after one initial subscription)."""
    base = {"ns": "a", "cid": 4, "metric": "ACTIVE_POWER", "start": None}
    alphabet = [
        ("req", {"ns": "b", "cid": 4, "metric": "ACTIVE_POWER", "start": None}),   # same metric, new channel
        ("req", {"ns": "a", "cid": 4, "metric": "FREQUENCY", "start": None}),      # new metric key
        ("req", base),                                                              # duplicate
        ("msg", None),
        ("yield", 1),
    ]
    out = []
    rng = random.Random(0)

    def build(seq: tuple, variant: str = "increasing") -> dict:
        acts: list[dict] = [{"a": "req", **base}]
        k = 0
        first = None
        for kind, arg in seq:
            if kind == "req":
                acts.append({"a": "req", **arg})
            elif kind == "msg":
                k += 1
                if variant == "increasing":
                    m = {"a": "msg", "cid": 4, "ts": T0_US + k * 1_000_000, "fields": gen_fields(rng, "METER", k)}
                elif variant == "same-ts":      # one timestamp, different values
                    m = {"a": "msg", "cid": 4, "ts": T0_US + 1_000_000, "fields": gen_fields(rng, "METER", k)}
                elif variant == "decreasing":
                    m = {"a": "msg", "cid": 4, "ts": T0_US - k * 1_000_000, "fields": gen_fields(rng, "METER", k)}
                else:                           # "identical": every message is a copy of the first
                    first = first or {"a": "msg", "cid": 4, "ts": T0_US + 1_000_000,
                                      "fields": gen_fields(rng, "METER", 1)}
                    m = {**first, "fields": [[a, list(vs)] for a, vs in first["fields"]]}
                acts.append(m)
            else:
                acts.append({"a": "yield", "n": arg})
        return {"mode": "direct", "yield_api": False, "components": [[4, "METER"]], "actions": acts}

    def rec(prefix: tuple, depth: int) -> None:
        n_msg = sum(1 for k, _ in prefix if k == "msg")
        if n_msg:
            out.append(build(prefix))
        if n_msg >= 2:   # the same script with repeated / decreasing timestamps and with identical messages
            out.append(build(prefix, ("same-ts", "decreasing", "identical")[len(out) % 3]))
        if depth == 0:
            return
        for sym in alphabet:
            rec(prefix + (sym,), depth - 1)

    rec((), max_len)
    return out


# ---- running the real code -----------------------------------------------------------------------------------------
def _to_float(v: str | None) -> float:
    return float("nan") if v is None else float(Fraction(v))


def build_message(cat: str, cid: int, ts_us: int, fields: list) -> Any:
    from tests.utils.component_data_wrapper import (BatteryDataWrapper, EvChargerDataWrapper, InverterDataWrapper,
                                                    MeterDataWrapper)

    cls = {"METER": MeterDataWrapper, "INVERTER": InverterDataWrapper, "BATTERY": BatteryDataWrapper,
           "EV_CHARGER": EvChargerDataWrapper}[cat]
    kw = {}
    for attr, vals in fields:
        kw[attr] = _to_float(vals[0]) if ATTRS[cat][attr] == 1 else tuple(_to_float(v) for v in vals)
    return cls(cid, EPOCH + timedelta(microseconds=ts_us), **kw)


def sample_json(sample: Any) -> list:
    ts = sample.timestamp - EPOCH
    us = (ts.days * 86400 + ts.seconds) * 1_000_000 + ts.microseconds
    v = None if sample.value is None else sample.value.base_value
    if v is not None and v != v:
        v = None
    return [us, rat(v)]


async def _run_async(case: dict) -> dict:
    from frequenz.channels import Broadcast, Receiver
    from frequenz.client.microgrid import Component, ComponentCategory, ComponentMetricId
    from frequenz.quantities import Quantity

    from frequenz.sdk._internal._channels import ChannelRegistry
    from frequenz.sdk.microgrid._data_sourcing import ComponentMetricRequest, DataSourcingActor
    from frequenz.sdk.microgrid._data_sourcing.microgrid_api_source import MicrogridApiSource
    from frequenz.sdk.timeseries import Sample

    log: list[dict] = []          # the observed trace, in real order
    comps = {c: cat for c, cat in case["components"]}
    api_chans = {c: Broadcast(name=f"api-{c}") for c in comps}
    api_senders = {c: ch.new_sender() for c, ch in api_chans.items()}
    api_recvs: dict[int, list] = {c: [] for c in comps}
    yield_api = bool(case.get("yield_api"))

    class Tap(Receiver):  # type: ignore[type-arg]
        """The API stream receiver handed to the SDK; records who polls and what is consumed."""

        def __init__(self, cid: int, inner: Any) -> None:
            self.cid, self.inner, self.last_task = cid, inner, None

        async def ready(self) -> bool:
            task = asyncio.current_task()
            if task is not self.last_task:
                self.last_task = task
                log.append({"e": "start", "cid": self.cid})
            return await self.inner.ready()

        def consume(self) -> Any:
            m = self.inner.consume()
            log.append({"e": "take", "cid": self.cid})
            return m

        def close(self) -> None:
            self.inner.close()

    def stream_method(expected: str):
        async def method(cid: int, maxsize: int = 50) -> Any:
            if yield_api:
                await asyncio.sleep(0)
            if comps.get(cid) != expected:
                raise ValueError(f"Component id {cid} is not a {expected.lower()}")
            tap = Tap(cid, api_chans[cid].new_receiver(limit=maxsize))
            api_recvs[cid].append(tap)
            log.append({"e": "connect", "cid": cid})
            return tap

        return method

    fail_api = [0]

    async def components() -> list:
        if yield_api:
            await asyncio.sleep(0)
        if fail_api[0] > 0:
            fail_api[0] -= 1
            raise RuntimeError("microgrid API unavailable")
        return [Component(component_id=c, category=ComponentCategory[cat]) for c, cat in comps.items()]

    client = mock.MagicMock(name="api_client")
    client.components = components
    for cat, meth in API_METHOD.items():
        setattr(client, meth, stream_method(cat))
    cm = mock.MagicMock(name="connection_manager")
    cm.api_client = client

    registry = ChannelRegistry(name="c20")
    out_recvs: dict[tuple, Any] = {}
    order: list[dict] = []
    dup_restarts: list[dict] = []
    seen_requests: set[tuple] = set()

    patcher = mock.patch(
        "frequenz.sdk.microgrid._data_sourcing.microgrid_api_source.connection_manager.get", return_value=cm)
    patcher.start()
    actor = None
    try:
        sources: list = []            # every MicrogridApiSource that handled a request, in order of first use
        orig_add = MicrogridApiSource.add_metric

        async def add_metric(self_src: Any, request: Any) -> None:
            if self_src not in sources:
                sources.append(self_src)
            r = {"ns": request.namespace, "cid": request.component_id, "metric": request.metric_id.name,
                 "start": None if request.start_time is None else str(request.start_time)}
            log.append({"e": "request", **r})
            key = chan_key(r)
            before = self_src.comp_data_tasks.get(request.component_id)
            await orig_add(self_src, request)
            if key in seen_requests and self_src.comp_data_tasks.get(request.component_id) is not before:
                dup_restarts.append(r)
            seen_requests.add(key)

        add_patcher = mock.patch.object(MicrogridApiSource, "add_metric", new=add_metric)
        add_patcher.start()
        src = None
        if case["mode"] == "actor":
            req_chan = Broadcast(name="requests")
            req_sender = req_chan.new_sender()
            actor = DataSourcingActor(req_chan.new_receiver(limit=200), registry)
        else:
            src = MicrogridApiSource(registry)
        if actor is not None:
            actor.start()
            await asyncio.sleep(0)

        objs: dict[int, Any] = {}
        for idx, act in enumerate(case["actions"]):
            if act["a"] == "req":
                # the subscriber builds its own, fresh request and listens on the channel that names
                fresh = ComponentMetricRequest(act["ns"], act["cid"], ComponentMetricId[act["metric"]],
                                               start_dt(act["start"]))
                key = chan_key(act)
                if key not in out_recvs:
                    out_recvs[key] = registry.get_or_create(
                        Sample[Quantity], fresh.get_channel_name()).new_receiver(limit=100000)
                    order.append(chan_json(act))
                request = fresh
                if act.get("derive"):
                    import copy
                    base = objs[act["derive"][0]]
                    base.get_channel_name()                      # the client has looked at the name of that request
                    request = copy.copy(base) if act["derive"][1] == "copy" else base
                    request.namespace, request.component_id = act["ns"], act["cid"]
                    request.metric_id, request.start_time = ComponentMetricId[act["metric"]], start_dt(act["start"])
                else:
                    request.get_channel_name()
                objs[idx] = request
                if actor is not None:
                    await req_sender.send(request)
                else:
                    await src.add_metric(request)
            elif act["a"] == "msg":
                log.append({"e": "message", "cid": act["cid"], "ts": act["ts"], "fields": act["fields"]})
                await api_senders[act["cid"]].send(
                    build_message(comps[act["cid"]], act["cid"], act["ts"], act["fields"]))
            elif act["a"] == "yield":
                for _ in range(act["n"]):
                    await asyncio.sleep(0)
            elif act["a"] == "fail_api":
                # arm the failure only once the SDK is idle, so that it hits the NEXT request (the one for an unknown id
                # that follows), not one that is still being processed: losing a valid request to an API outage is not
                # what C20 is about
                quiet, last = 0, -1
                for _ in range(2000):
                    await asyncio.sleep(0)
                    quiet = quiet + 1 if len(log) == last else 0
                    last = len(log)
                    if quiet >= 12:
                        break
                fail_api[0] += act["n"]
            elif act["a"] == "sleep":
                await asyncio.sleep(act["us"] / 1_000_000)
            else:
                raise ValueError(act)
        # drain: run until nothing observable happens for a while
        quiet, last = 0, -1
        for _ in range(5000):
            await asyncio.sleep(0)
            if len(log) == last:
                quiet += 1
                if quiet >= 12:
                    break
            else:
                quiet, last = 0, len(log)
        delivered = [[sample_json(s) for s in list(out_recvs[chan_key(c)]._q)] for c in order]  # pylint: disable=protected-access
        if src is None:
            src = sources[0] if sources else getattr(actor, "_microgrid_api_source", None)
        if src is None:               # the actor never handled a request and keeps no source object
            src = MicrogridApiSource(registry)
        subs = []
        for c in comps:
            d = src._req_streaming_metrics.get(c, {})  # pylint: disable=protected-access
            subs.append([c, [[m.name, [[r.namespace, None if r.start_time is None else str(r.start_time)] for r in rs]]
                             for m, rs in d.items()]])
        queued = [[c, len(api_recvs[c][0].inner) if api_recvs[c] else 0] for c in comps]
        return {
            "log": log, "channels": order, "delivered": delivered, "subs": subs, "queued": queued,
            "dup_restarts": dup_restarts, "connects": {str(c): len(v) for c, v in api_recvs.items()},
            "tasks_for": sorted(src.comp_data_tasks),
        }
    finally:
        patcher.stop()
        try:
            add_patcher.stop()
        except (RuntimeError, NameError, UnboundLocalError):
            pass
        me = asyncio.current_task()
        if actor is not None:
            try:
                await actor.stop()
            except BaseException:  # pylint: disable=broad-except
                pass
        others = [t for t in asyncio.all_tasks() if t is not me]
        for t in others:
            t.cancel()
        await asyncio.gather(*others, return_exceptions=True)


def run_impl(case: dict) -> dict:
    import async_solipsism

    loop = async_solipsism.EventLoop()
    asyncio.set_event_loop(loop)
    try:
        return loop.run_until_complete(_run_async(case))
    finally:
        asyncio.set_event_loop(None)
        loop.close()


def model_case(case: dict, obs: dict) -> dict:
    """The observed trace as input of the Lean driver (`connect` is not a model event)."""
    events = [e for e in obs["log"] if e["e"] != "connect"]
    return {"components": case["components"], "events": events, "channels": obs["channels"]}


def impl_out(obs: dict) -> dict:
    return {"delivered": obs["delivered"], "stuck": 0, "subs": obs["subs"], "queued": obs["queued"]}
