"""C16 — generators, runners of the REAL battery status tracker / pool tracker, and the Python-side oracle.

All times are integer microseconds on a grid of 1/8 s (exact as floats and as timedeltas).  The wall clock
(`datetime.now`, via time_machine) is slaved to the virtual loop clock of `async_solipsism`, so `loop.time()`,
`Timer` and `datetime.now()` always agree and nothing sleeps for real.

Seams used on the real code (nothing under /repo is edited):
  * sync  : the REAL coroutine `BatteryStatusTracker._run` is executed, with the module globals `select` /
            `selected_from` replaced by a scripted feeder — every event of the case is one iteration of the real loop
            body (guards, `continue`, handlers, `_get_new_status_if_changed`, `status_sender.send`).
  * actor : the tracker is started normally (`start()`); real `select`, real `Timer`s, real `Broadcast` channels fed by a
            fake API client; notifications are read from the status channel with their virtual time.  The dispatch
            order is logged through wrappers around the handlers and `Timer.consume`.
  * pool  : the real `ComponentPoolStatusTracker` with real battery trackers (actor seam), or with a stub tracker type
            to inject arbitrary `ComponentStatus` sequences.
"""
from __future__ import annotations

import asyncio
import math
from datetime import datetime, timedelta, timezone
from typing import Any
from unittest import mock

EPOCH = datetime(2022, 1, 1, tzinfo=timezone.utc)
Q = 125_000  # time quantum, µs
SEC = 1_000_000
BAT_ID, INV_ID = 9, 8

# The property's reading of "operational" (independent of the tables in the source).
OPERATIONAL_BATTERY = {"IDLE", "CHARGING", "DISCHARGING"}
OPERATIONAL_RELAY = {"CLOSED"}
OPERATIONAL_INVERTER = {"STANDBY", "IDLE", "CHARGING", "DISCHARGING"}
# The property does not fix the first blocking period ("a blocking period that doubles … up to the maximum"); it is a
# parameter like max_data_age: read from the tracker under test when one is created (the SDK uses 1 s).
MIN_BLOCK = 1 * SEC

NW, UN, WK = "NOT_WORKING", "UNCERTAIN", "WORKING"


# --------------------------------------------------------------------------- imports of the code under test (lazy)
class _Repo:
    loaded = False

    @classmethod
    def load(cls) -> None:
        if cls.loaded:
            return
        import warnings

        warnings.filterwarnings("ignore", category=DeprecationWarning)
        import async_solipsism  # noqa: F401
        import time_machine  # noqa: F401
        from frequenz.channels import Broadcast
        from frequenz.channels.timer import Timer
        from frequenz.client.microgrid import (BatteryComponentState, BatteryError, BatteryErrorCode, BatteryRelayState,
                                               ComponentCategory, ErrorLevel, InverterComponentState, InverterError,
                                               InverterErrorCode)
        from frequenz.sdk.actor._background_service import BackgroundService
        from frequenz.sdk.microgrid import connection_manager
        from frequenz.sdk.microgrid._power_distributing import _component_pool_status_tracker as pool_mod
        from frequenz.sdk.microgrid._power_distributing._component_status import _battery_status_tracker as bst
        from frequenz.sdk.microgrid._power_distributing._component_status import _component_status as cst
        from tests.utils.component_data_wrapper import BatteryDataWrapper, InverterDataWrapper

        for k, v in locals().items():
            if k != "cls":
                setattr(cls, k, v)
        cls.loaded = True


def dt_of(us: int) -> datetime:
    return EPOCH + timedelta(microseconds=us)


# --------------------------------------------------------------------------- virtual time
class LockstepClock:
    """Clock of the solipsism loop that drags the wall clock (time_machine) along."""

    def __init__(self, traveller: Any, resolution: float = 1e-6):
        self._ticks = 0
        self._resolution = resolution
        self._traveller = traveller

    @property
    def resolution(self) -> float:
        return self._resolution

    def time(self) -> float:
        return self._ticks * self._resolution

    def advance(self, delta: float) -> None:
        self._ticks += round(delta / self._resolution)
        self._traveller.move_to(dt_of(self._ticks), tick=False)

    @property
    def us(self) -> int:
        return self._ticks


def run_virtual(coro_fn: Any) -> Any:
    """Run `await coro_fn(clock)` on a fresh solipsism loop whose clock also drives `datetime.now()`."""
    import async_solipsism
    import time_machine

    loop = async_solipsism.EventLoop()
    asyncio.set_event_loop(loop)
    try:
        with time_machine.travel(EPOCH, tick=False) as traveller:
            clock = LockstepClock(traveller)
            loop._selector.clock = clock  # pylint: disable=protected-access
            return loop.run_until_complete(coro_fn(clock))
    finally:
        try:
            loop.close()
        finally:
            asyncio.set_event_loop(None)


async def sleep_until(clock: LockstepClock, t_us: int) -> None:
    d = t_us - clock.us
    if d > 0:
        await asyncio.sleep(d / 1e6)


# --------------------------------------------------------------------------- fakes
class _FakeComp:
    def __init__(self, cid: int, cat: Any):
        self.component_id = cid
        self.category = cat


class FakeGraph:
    def predecessors(self, bid: int) -> list[_FakeComp]:
        return [_FakeComp(bid - 1, _Repo.ComponentCategory.INVERTER)]


class FakeApi:
    """Microgrid API client: one Broadcast channel per component."""

    def __init__(self) -> None:
        self.channels: dict[int, Any] = {}
        self.receivers: dict[int, Any] = {}

    def chan(self, cid: int) -> Any:
        if cid not in self.channels:
            self.channels[cid] = _Repo.Broadcast(name=f"raw-{cid}")
        return self.channels[cid]

    async def battery_data(self, cid: int, maxsize: int = 50) -> Any:
        r = self.chan(cid).new_receiver(limit=maxsize)
        self.receivers[cid] = r
        return r

    async def inverter_data(self, cid: int, maxsize: int = 50) -> Any:
        r = self.chan(cid).new_receiver(limit=maxsize)
        self.receivers[cid] = r
        return r


class FakeCM:
    def __init__(self) -> None:
        self.api_client = FakeApi()
        self.component_graph = FakeGraph()


def make_msg(ev: dict, now_us: int, bat_id: int = BAT_ID) -> Any:
    """Real `BatteryData` / `InverterData` for an event of kind bat / inv."""
    R = _Repo
    ts = dt_of(ev["ts"] if "ts" in ev else now_us - ev.get("delay", 0))
    if ev["k"] == "bat":
        errs = [R.BatteryError(code=R.BatteryErrorCode.UNSPECIFIED, level=R.ErrorLevel[l], message="") for l in ev["errs"]]
        return R.BatteryDataWrapper(component_id=bat_id, timestamp=ts,
                                    capacity=math.nan if ev["nan"] else 100.0,
                                    relay_state=R.BatteryRelayState[ev["relay"]],
                                    component_state=R.BatteryComponentState[ev["state"]], errors=errs)
    errs = [R.InverterError(code=R.InverterErrorCode.UNSPECIFIED, level=R.ErrorLevel[l], message="") for l in ev["errs"]]
    return R.InverterDataWrapper(component_id=bat_id - 1, timestamp=ts,
                                 component_state=R.InverterComponentState[ev["state"]], errors=errs)


def final_state(tracker: Any) -> dict:
    b = tracker._blocking_status  # pylint: disable=protected-access
    def reset_at(stream: Any) -> int:
        t = stream.data_recv_timer
        return t._next_tick_time - t._interval  # pylint: disable=protected-access
    return {"last": tracker._last_status.name, "batOk": bool(tracker._battery.last_msg_correct),
            "invOk": bool(tracker._inverter.last_msg_correct),
            "until": None if b.blocked_until is None else int((b.blocked_until - EPOCH) / timedelta(microseconds=1)),
            "dur": int(b.last_blocking_duration / timedelta(microseconds=1)),
            "batReset": reset_at(tracker._battery), "invReset": reset_at(tracker._inverter)}


def new_tracker(case: dict, sender: Any, sp_rx: Any, bat_id: int = BAT_ID) -> Any:
    R = _Repo
    tr = R.bst.BatteryStatusTracker(bat_id, timedelta(microseconds=case["maxAge"]),
                                    timedelta(microseconds=case["maxBlk"]), sender, sp_rx)
    # the dataclass default of last_msg_timestamp is the import time of the module: pin it (it is part of the case)
    tr._battery.last_msg_timestamp = dt_of(case["ts0"])  # pylint: disable=protected-access
    tr._inverter.last_msg_timestamp = dt_of(case["ts0"])  # pylint: disable=protected-access
    global MIN_BLOCK  # pylint: disable=global-statement
    MIN_BLOCK = int(tr._blocking_status.min_duration / timedelta(microseconds=1))  # pylint: disable=protected-access
    return tr


# --------------------------------------------------------------------------- sync seam: the real `_run` body
class _Done(BaseException):
    pass


class _Sel:
    def __init__(self, recv: Any, message: Any):
        self.recv = recv
        self.message = message
        self._handled = True


class _RecSender:
    def __init__(self) -> None:
        self.sent: list[Any] = []

    async def send(self, msg: Any) -> None:
        self.sent.append(msg)


def run_sync(case: dict) -> dict:
    """Drive the real `BatteryStatusTracker._run` through the events of `case` (driver mode "sync")."""
    _Repo.load()
    R = _Repo

    async def go(clock: LockstepClock) -> dict:
        cm = FakeCM()
        sender = _RecSender()
        sp_rx = object()
        outs: list[Any] = []
        crashes: list[int] = []
        with mock.patch.object(R.connection_manager, "get", return_value=cm):
            await sleep_until(clock, case["t0"])
            tracker = new_tracker(case, sender, sp_rx)
            state = {"i": 0, "entered": 0}
            events = case["events"]

            def collect() -> None:
                if state["i"] > 0:
                    sent = [m.value.name for m in sender.sent]
                    sender.sent.clear()
                    outs.append(None if not sent else (sent[0] if len(sent) == 1 else sent))

            async def fake_select(*_recvs: Any):
                state["entered"] += 1
                if state["entered"] > 1:
                    crashes.append(state["i"] - 1)
                while True:
                    collect()
                    if state["i"] >= len(events):
                        raise _Done()
                    ev = events[state["i"]]
                    state["i"] += 1
                    await sleep_until(clock, ev["now"])
                    k = ev["k"]
                    if k == "bat":
                        yield _Sel(cm.api_client.receivers[BAT_ID], make_msg(ev, ev["now"]))
                    elif k == "inv":
                        yield _Sel(cm.api_client.receivers[INV_ID], make_msg(ev, ev["now"]))
                    elif k == "batT":
                        yield _Sel(tracker._battery.data_recv_timer, timedelta(0))  # pylint: disable=protected-access
                    elif k == "invT":
                        yield _Sel(tracker._inverter.data_recv_timer, timedelta(0))  # pylint: disable=protected-access
                    else:
                        yield _Sel(sp_rx, R.cst.SetPowerResult(succeeded={BAT_ID} if ev["succ"] else {1},
                                                               failed={BAT_ID} if ev["fail"] else {2}))

            with mock.patch.object(R.bst, "select", fake_select), \
                    mock.patch.object(R.bst, "selected_from", lambda sel, recv: sel.recv is recv):
                try:
                    await tracker._run(sender, sp_rx)  # pylint: disable=protected-access
                except _Done:
                    pass
            out = {"out": outs, "final": final_state(tracker)}
            if crashes:
                out["crash"] = crashes
            return out

    return run_virtual(go)


# --------------------------------------------------------------------------- exhaustive walk through the real `_run`
def run_exh(case: dict) -> dict:
    """All extensions of `prefix` up to `depth` letters, pre-order, through ONE run of the real `_run` loop:
    the feeder restores the tracker's (small) mutable state when it backtracks."""
    _Repo.load()
    R = _Repo
    letters, depth = case["alphabet"], case["depth"]

    async def go(clock: LockstepClock) -> dict:
        cm = FakeCM()
        sender = _RecSender()
        sp_rx = object()
        chars: list[str] = []
        code = {NW: "N", UN: "U", WK: "W"}
        with mock.patch.object(R.connection_manager, "get", return_value=cm):
            tracker = new_tracker(case, sender, sp_rx)
            bs = tracker._blocking_status  # pylint: disable=protected-access

            def snap() -> tuple:
                return (tracker._battery.last_msg_correct, tracker._battery.last_msg_timestamp,
                        tracker._inverter.last_msg_correct, tracker._inverter.last_msg_timestamp,
                        tracker._last_status, bs.blocked_until, bs.last_blocking_duration)

            def restore(s: tuple) -> None:
                (tracker._battery.last_msg_correct, tracker._battery.last_msg_timestamp,
                 tracker._inverter.last_msg_correct, tracker._inverter.last_msg_timestamp,
                 tracker._last_status, bs.blocked_until, bs.last_blocking_duration) = s

            import time_machine  # noqa: F401  (the traveller lives in the clock)

            def set_time(us: int) -> None:
                clock._traveller.move_to(dt_of(us), tick=False)  # pylint: disable=protected-access

            def selected_for(letter: dict, now: int) -> _Sel:
                k = letter["k"]
                if k == "bat":
                    return _Sel(cm.api_client.receivers[BAT_ID], make_msg(letter, now))
                if k == "inv":
                    return _Sel(cm.api_client.receivers[INV_ID], make_msg(letter, now))
                if k == "batT":
                    return _Sel(tracker._battery.data_recv_timer, timedelta(0))  # pylint: disable=protected-access
                if k == "invT":
                    return _Sel(tracker._inverter.data_recv_timer, timedelta(0))  # pylint: disable=protected-access
                return _Sel(sp_rx, R.cst.SetPowerResult(succeeded={BAT_ID} if letter["succ"] else {1},
                                                        failed={BAT_ID} if letter["fail"] else {2}))

            pending = {"record": False}

            def collect() -> None:
                if pending["record"]:
                    sent = [m.value.name for m in sender.sent]
                    chars.append("-" if not sent else (code[sent[0]] if len(sent) == 1 else "!"))
                    pending["record"] = False
                sender.sent.clear()

            async def fake_select(*_recvs: Any):
                now = case["t0"]
                for i in case["prefix"]:
                    collect()
                    now += letters[i]["dt"]
                    set_time(now)
                    yield selected_for(letters[i], now)
                collect()
                # explicit DFS stack: (state snapshot, time, depth, next letter index)
                stack = [[snap(), now, len(case["prefix"]), 0]]
                while stack:
                    top = stack[-1]
                    s, t, d, j = top
                    if d >= depth or j >= len(letters):
                        stack.pop()
                        continue
                    top[3] = j + 1
                    restore(s)
                    t2 = t + letters[j]["dt"]
                    set_time(t2)
                    pending["record"] = True
                    yield selected_for(letters[j], t2)
                    collect()
                    stack.append([snap(), t2, d + 1, 0])
                raise _Done()

            with mock.patch.object(R.bst, "select", fake_select), \
                    mock.patch.object(R.bst, "selected_from", lambda sel, recv: sel.recv is recv):
                try:
                    await tracker._run(sender, sp_rx)  # pylint: disable=protected-access
                except _Done:
                    pass
        return {"out": "".join(chars)}

    return run_virtual(go)


# --------------------------------------------------------------------------- actor seam
def _spy_dispatch(tracker: Any, clock: LockstepClock, log: list, ids: dict, tag: str = "") -> list:
    """Wrap the handlers of one tracker so that the order in which `select` delivers events is recorded."""
    patches = []

    def wrap(name: str, kind: str) -> None:
        orig = getattr(tracker, name)

        def spy(msg: Any) -> Any:
            log.append({"k": kind, "now": clock.us, "ref": ids.get(id(msg)), "b": tag})
            return orig(msg)

        setattr(tracker, name, spy)

    wrap("_handle_status_battery", "bat")
    wrap("_handle_status_inverter", "inv")
    wrap("_handle_status_set_power_result", "sp")
    return patches


def run_actor(case: dict) -> dict:
    """The tracker as a running actor: real select/Timer/Broadcast; driver mode "actor"."""
    _Repo.load()
    R = _Repo

    async def go(clock: LockstepClock) -> dict:
        cm = FakeCM()
        status_ch = R.Broadcast(name="status")
        sp_ch = R.Broadcast(name="set_power_result")
        rx = status_ch.new_receiver(limit=1000)
        notes: list[list] = []
        log: list[dict] = []
        ids: dict[int, int] = {}
        timer_of: dict[int, str] = {}
        orig_consume = R.Timer.consume

        def consume_spy(self: Any) -> Any:
            kind = timer_of.get(id(self))
            if kind is not None:
                log.append({"k": kind, "now": clock.us})
            return orig_consume(self)

        with mock.patch.object(R.connection_manager, "get", return_value=cm), \
                mock.patch.object(R.Timer, "consume", consume_spy):
            await sleep_until(clock, case["t0"])
            tracker = new_tracker(case, status_ch.new_sender(), sp_ch.new_receiver(limit=1000))
            timer_of[id(tracker._battery.data_recv_timer)] = "batT"  # pylint: disable=protected-access
            timer_of[id(tracker._inverter.data_recv_timer)] = "invT"  # pylint: disable=protected-access
            _spy_dispatch(tracker, clock, log, ids)

            async def reader() -> None:
                async for st in rx:
                    notes.append([clock.us, st.value.name])

            rtask = asyncio.ensure_future(reader())
            tracker.start()
            bat_tx = cm.api_client.chan(BAT_ID).new_sender()
            inv_tx = cm.api_client.chan(INV_ID).new_sender()
            sp_tx = sp_ch.new_sender()
            observed: list[dict] = []
            for idx, act in enumerate(case["actions"]):
                await sleep_until(clock, act["t"])
                ev = act.get("ev")
                if ev is not None:
                    if ev["k"] in ("bat", "inv"):
                        m = make_msg(ev, act["t"])
                        ids[id(m)] = idx
                        await (bat_tx if ev["k"] == "bat" else inv_tx).send(m)
                    else:
                        m = R.cst.SetPowerResult(succeeded={BAT_ID} if ev["succ"] else {1},
                                                 failed={BAT_ID} if ev["fail"] else {2})
                        ids[id(m)] = idx
                        await sp_tx.send(m)
                await sleep_until(clock, act["t"] + 1)  # everything due at this instant has been processed
                observed.append({"t": act["t"], "status": notes[-1][1] if notes else NW})
            fin = final_state(tracker)
            await tracker.stop()
            rtask.cancel()
            try:
                await rtask
            except (asyncio.CancelledError, Exception):  # pylint: disable=broad-except
                pass
        return {"notes": notes, "log": [[e["now"], e["k"]] for e in log], "final": fin,
                "_observed": observed, "_dispatch": log}

    return run_virtual(go)


def dispatch_to_sync_case(case: dict, dispatch: list[dict]) -> dict:
    """The observed dispatch order of an actor run as a driver-mode "sync" case (log replay)."""
    events = []
    for d in dispatch:
        if d["k"] in ("batT", "invT"):
            events.append({"k": d["k"], "now": d["now"]})
        else:
            act = case["actions"][d["ref"]]
            ev = dict(act["ev"])
            if ev["k"] in ("bat", "inv"):
                ev["ts"] = act["t"] - ev.get("delay", 0)
                ev.pop("delay", None)
            ev["now"] = d["now"]
            events.append(ev)
    return {"mode": "sync", "maxAge": case["maxAge"], "maxBlk": case["maxBlk"], "ts0": case["ts0"], "t0": case["t0"],
            "events": events}


# --------------------------------------------------------------------------- pool
def run_pool_fold(case: dict) -> dict:
    """Real `ComponentPoolStatusTracker` fed with arbitrary `ComponentStatus` sequences through a stub tracker type."""
    _Repo.load()
    R = _Repo
    senders: dict[int, Any] = {}

    class StubTracker(R.cst.ComponentStatusTracker, R.BackgroundService):
        def __init__(self, component_id, max_data_age, max_blocking_duration, status_sender,  # noqa: D107
                     set_power_result_receiver):
            R.BackgroundService.__init__(self, name=f"stub-{component_id}")
            senders[component_id] = status_sender

        def start(self) -> None:
            pass

    async def go(clock: LockstepClock) -> dict:
        ids = sorted({o["id"] for o in case["ops"] if "id" in o} | {i for o in case["ops"] if "get" in o for i in o["get"]})
        out_ch = R.Broadcast(name="pool-status")
        out_rx = out_ch.new_receiver(limit=1000)
        pool = R.pool_mod.ComponentPoolStatusTracker(
            component_ids=set(ids), component_status_sender=out_ch.new_sender(),
            max_data_age=timedelta(seconds=10), max_blocking_duration=timedelta(seconds=30),
            component_status_tracker_type=StubTracker)
        await asyncio.sleep(0.001)
        outs: list[Any] = []
        for op in case["ops"]:
            if "get" in op:
                outs.append(sorted(pool.get_working_components(set(op["get"]))))
            else:
                st = R.cst.ComponentStatus(op["id"], R.cst.ComponentStatusEnum[op["st"]])
                await senders[op["id"]].send(st)
                await asyncio.sleep(0.001)
                got = []
                while True:
                    try:
                        m = out_rx.consume() if out_rx._q else None  # pylint: disable=protected-access
                    except Exception:  # pylint: disable=broad-except
                        m = None
                    if m is None:
                        break
                    got.append({"w": sorted(m.working), "u": sorted(m.uncertain)})
                outs.append(got[0] if len(got) == 1 else (None if not got else got))
        await pool.stop()
        return {"out": outs}

    return run_virtual(go)


def action_events(act: dict) -> list[tuple[dict, Any]]:
    """(event, battery id | None) of a pool-actor action: a single `ev` (+ `bat`) or a burst `evs` (data events carry
    their battery in `bat`)."""
    if act.get("evs"):
        return [(e, e.get("bat")) for e in act["evs"]]
    ev = act.get("ev")
    return [] if ev is None else [(ev, act.get("bat"))]


def pool_burst_oracle(case: dict, obs: list[dict]) -> list[tuple[str, Any, str | None]]:
    """C16 at pool level, on the set-power results of one action (a single result or a burst published in one
    event-loop step): a battery that was usable before and is named failed in ANY of the results, with no later result
    naming it succeeded, must not be offered as working right afterwards (its blocking period of at least the minimum
    duration has just started or is still running).  Batteries that also get a data message in the same step are not
    judged (the order of the two deliveries is the scheduler's choice)."""
    viol: list[tuple[str, Any, str | None]] = []
    prev: dict = {"w": [], "u": []}
    for a, ob in zip(case["actions"], obs):
        evs = action_events(a)
        touched = {b for e, b in evs if e["k"] in ("bat", "inv")}
        for b in case["bats"]:
            if b in touched or b not in set(prev["w"]) | set(prev["u"]):
                continue
            pending = False
            for e, _ in evs:
                if e["k"] != "sp":
                    continue
                if b in e["succ"]:
                    pending = False
                elif b in e["fail"]:
                    pending = True
            if pending and (b in ob["w"] or b in ob["get"] and set(ob["w"]) & set(a.get("req", case["bats"]))):
                viol.append(("backoff(pool): a battery named failed in a set-power result is still offered as working",
                             {"t": a["t"], "battery": b, "results": [e for e, _ in evs if e["k"] == "sp"], "observed": ob}, None))
        prev = ob
    return viol


def run_pool_actor(case: dict) -> dict:
    """Real pool tracker with real battery trackers (ids in case["bats"]), fake API streams, scripted results."""
    _Repo.load()
    R = _Repo

    async def go(clock: LockstepClock) -> dict:
        cm = FakeCM()
        bats = case["bats"]
        with mock.patch.object(R.connection_manager, "get", return_value=cm):
            await sleep_until(clock, case["t0"])
            out_ch = R.Broadcast(name="pool-status")
            out_rx = out_ch.new_receiver(limit=1)
            pool = R.pool_mod.ComponentPoolStatusTracker(
                component_ids=set(bats), component_status_sender=out_ch.new_sender(),
                max_data_age=timedelta(microseconds=case["maxAge"]),
                max_blocking_duration=timedelta(microseconds=case["maxBlk"]),
                component_status_tracker_type=R.bst.BatteryStatusTracker)
            for tr in pool._component_status_trackers:  # pylint: disable=protected-access
                tr._battery.last_msg_timestamp = dt_of(case["ts0"])  # pylint: disable=protected-access
                tr._inverter.last_msg_timestamp = dt_of(case["ts0"])  # pylint: disable=protected-access
            await sleep_until(clock, case["t0"] + 1)
            tx = {}
            for b in bats:
                tx[b] = cm.api_client.chan(b).new_sender()
                tx[b - 1] = cm.api_client.chan(b - 1).new_sender()
            obs: list[Any] = []
            for act in case["actions"]:
                await sleep_until(clock, act["t"])
                # a burst (`evs`) is published back-to-back in ONE event-loop step: the trackers run only afterwards
                for ev, b in action_events(act):
                    if ev["k"] in ("bat", "inv"):
                        await tx[b if ev["k"] == "bat" else b - 1].send(make_msg(ev, act["t"], bat_id=b))
                    else:
                        await pool.update_status(set(ev["succ"]), set(ev["fail"]))
                await sleep_until(clock, act["t"] + 1)
                cur = pool._current_status  # pylint: disable=protected-access
                obs.append({"w": sorted(cur.working), "u": sorted(cur.uncertain),
                            "get": sorted(pool.get_working_components(set(act.get("req", bats))))})
            await pool.stop()
            _ = out_rx
        return {"obs": obs}

    return run_virtual(go)


# --------------------------------------------------------------------------- independent oracle
def healthy(ev: dict) -> bool:
    """The property's facts: operational state (+relay for a battery), no critical error, capacity known."""
    if "CRITICAL" in ev["errs"]:
        return False
    if ev["k"] == "bat":
        return ev["state"] in OPERATIONAL_BATTERY and ev["relay"] in OPERATIONAL_RELAY and not ev["nan"]
    return ev["state"] in OPERATIONAL_INVERTER


def msg_ts(ev: dict, now: int) -> int:
    return ev["ts"] if "ts" in ev else now - ev.get("delay", 0)


def stream_regime(latest: dict | None) -> str | None:
    """Known-finding regime of a stream, from its latest message only."""
    if latest is None:
        return None
    if latest["ts"] < latest["arrival"]:
        return "StaleOnArrival"
    if latest["ts"] > latest["arrival"]:
        return "FutureTimestamp"
    return None


class EventOracle:
    """Evaluates the event-driven clauses of C16 on a sequence (event, status sent) produced by the REAL tracker."""

    def __init__(self, max_age: int, max_blk: int):
        self.max_age, self.max_blk = max_age, max_blk
        self.min_blk = MIN_BLOCK
        self.status = NW
        self.latest: dict[str, dict | None] = {"bat": None, "inv": None}
        self.streak: tuple[int, int] | None = None  # (k, blocked until)
        self.violations: list[tuple[str, Any, str | None]] = []
        self.tags: set[str] = set()

    def dur(self, k: int) -> int:
        return min((2 ** k) * self.min_blk, self.max_blk)

    def feed(self, i: int, ev: dict, out: Any) -> None:
        now, k = ev["now"], ev["k"]
        before = self.status
        if out is not None and not isinstance(out, str):
            self.violations.append(("on-change: several notifications in one iteration", {"i": i, "out": out}, None))
            out = out[-1]
        # ---- notifications only on change
        if out is not None:
            if out == before:
                self.violations.append(("on-change: notification equals the previous one", {"i": i, "out": out}, None))
            self.status = out
        after = self.status
        # ---- bookkeeping from the INPUT
        disq, regime = False, None
        if k in ("bat", "inv"):
            ts = msg_ts(ev, now)
            self.latest[k] = {"arrival": now, "ts": ts, "healthy": healthy(ev), "fresh": now - ts <= self.max_age}
            disq = not (self.latest[k]["healthy"] and self.latest[k]["fresh"])
            if now - ts > 0:
                self.tags.add("stale-on-arrival" if now - ts <= self.max_age else "stale-rejected")
            if now - ts < 0:
                self.tags.add("future-ts")
            if not healthy(ev):
                self.tags.add("unhealthy-msg")
        elif k in ("batT", "invT"):
            lat = self.latest["bat" if k == "batT" else "inv"]
            disq = lat is None or now - lat["arrival"] >= self.max_age  # a genuine silence
            regime = stream_regime(lat) if lat is not None and lat["ts"] > lat["arrival"] else None
            self.tags.add("silence-tick" if disq else "early-tick")
        # ---- safety: usable only with healthy, fresh-on-arrival latest messages of both streams
        if after in (WK, UN):
            for s in ("bat", "inv"):
                lat = self.latest[s]
                if lat is None or not lat["healthy"] or not lat["fresh"]:
                    self.violations.append((f"safety: reported {after} while the latest {s} message does not prove health",
                                            {"i": i, "latest": lat}, None))
        # ---- promptness
        if disq:
            if after != NW:
                self.violations.append(("prompt: disqualifying event but still reported usable",
                                        {"i": i, "event": ev, "status": after}, regime))
            elif before != NW and out != NW:
                self.violations.append(("prompt: NOT_WORKING not notified at the disqualifying event", {"i": i}, regime))
        # ---- back-off (closed form)
        if k == "sp":
            new_block = False
            if ev["succ"]:
                self.streak = None
            elif ev["fail"] and before != NW:
                if self.streak is None:
                    self.streak = (0, now + self.dur(0))
                    self.tags.add("block")
                    new_block = True
                elif now >= self.streak[1]:
                    kk = self.streak[0] + 1
                    self.streak = (kk, now + self.dur(kk))
                    self.tags.add("doubling" if self.dur(kk) < self.max_blk else "capped")
                    if kk >= 40:
                        self.tags.add("long-failure-run")
                    new_block = True
                else:
                    self.tags.add("fail-while-blocked")
            if new_block and after == WK:
                self.violations.append(("backoff: a failed command left the battery reported WORKING",
                                        {"i": i, "now": now, "streak": self.streak}, None))
        if before == NW and after != NW:
            if self.streak is not None:
                self.tags.add("recovery-reset")
            self.streak = None
        if k in ("bat", "inv", "sp") and after != NW:
            blocked = self.streak is not None and now < self.streak[1]
            if (after == UN) != blocked:
                self.violations.append((f"backoff: reported {after} but blocked={blocked} (streak={self.streak})",
                                        {"i": i, "now": now}, None))
        if after == WK:
            self.tags.add("reached-working")
        if after == UN:
            self.tags.add("reached-uncertain")


def time_oracle(case: dict, observed: list[dict]) -> list[tuple[str, Any, str | None]]:
    """Time-based clauses on an actor run: at every observation instant (after everything due at that instant was
    processed) a battery reported usable has healthy latest messages that are younger than max age — counted from
    the arrival (`arrival`) and from the message's own timestamp (`timestamp`, the literal statement)."""
    max_age = case["maxAge"]
    latest: dict[str, dict | None] = {"bat": None, "inv": None}
    viol = []
    for act, ob in zip(case["actions"], observed):
        t = act["t"]
        ev = act.get("ev")
        if ev is not None and ev["k"] in ("bat", "inv"):
            ts = t - ev.get("delay", 0)
            latest[ev["k"]] = {"arrival": t, "ts": ts, "healthy": healthy(ev), "fresh": t - ts <= max_age}
        if ob["status"] in (WK, UN):
            for s in ("bat", "inv"):
                lat = latest[s]
                if lat is None or not lat["healthy"] or not lat["fresh"]:
                    viol.append((f"safety: {ob['status']} at t={t} without a healthy fresh latest {s} message",
                                 {"t": t, "latest": lat}, None))
                    continue
                reg = stream_regime(lat)
                if not t - lat["arrival"] < max_age:
                    viol.append((f"safety-arrival: {ob['status']} at t={t}, latest {s} message arrived {t - lat['arrival']} µs ago",
                                 {"t": t, "latest": lat}, reg if reg == "FutureTimestamp" else None))
                if not t - lat["ts"] < max_age:
                    viol.append((f"safety-timestamp: {ob['status']} at t={t}, latest {s} message is {t - lat['ts']} µs old",
                                 {"t": t, "latest": lat}, reg))
    return viol


# --------------------------------------------------------------------------- generators
BAT_STATES = ["UNSPECIFIED", "OFF", "IDLE", "CHARGING", "DISCHARGING", "ERROR", "LOCKED", "SWITCHING_ON",
              "SWITCHING_OFF", "UNKNOWN"]
RELAY_STATES = ["UNSPECIFIED", "OPENED", "PRECHARGING", "CLOSED", "ERROR", "LOCKED"]
INV_STATES = ["UNSPECIFIED", "OFF", "SWITCHING_ON", "SWITCHING_OFF", "STANDBY", "IDLE", "CHARGING", "DISCHARGING",
              "ERROR", "UNAVAILABLE", "UNKNOWN"]


def gen_facts(rng: Any, kind: str, max_age: int, p_bad: float = 0.22) -> dict:
    """Facts of one message: healthy, or faulty in exactly one way; plus its delay (arrival - timestamp)."""
    ev: dict = {"k": kind, "errs": [], "nan": False}
    if kind == "bat":
        ev["state"] = rng.choice(sorted(OPERATIONAL_BATTERY))
        ev["relay"] = "CLOSED"
    else:
        ev["state"] = rng.choice(sorted(OPERATIONAL_INVERTER))
        ev["relay"] = "UNSPECIFIED"
    if rng.random() < 0.3:
        ev["errs"] = rng.choice([["WARN"], ["UNSPECIFIED"], ["WARN", "WARN"]])
    delay = 0
    r = rng.random()
    if r < p_bad:
        faults = ["state", "critical", "stale"] + (["relay", "nan"] if kind == "bat" else [])
        f = rng.choice(faults)
        if f == "state":
            pool = [s for s in (BAT_STATES if kind == "bat" else INV_STATES)
                    if s not in (OPERATIONAL_BATTERY if kind == "bat" else OPERATIONAL_INVERTER)]
            ev["state"] = rng.choice(pool)
        elif f == "relay":
            ev["relay"] = rng.choice([s for s in RELAY_STATES if s != "CLOSED"])
        elif f == "critical":
            ev["errs"] = rng.choice([["CRITICAL"], ["WARN", "CRITICAL"], ["CRITICAL", "WARN"]])
        elif f == "nan":
            ev["nan"] = True
        else:
            delay = max_age + rng.choice([Q, SEC, max_age])
    else:
        r2 = rng.random()
        if r2 < 0.14:
            delay = rng.choice([Q, max_age // 2 // Q * Q, max_age - Q, max_age])
        elif r2 < 0.24:
            delay = -rng.choice([Q, SEC, max_age, max_age + Q])
    ev["delay"] = delay
    return ev


def gen_sp(rng: Any) -> dict:
    r = rng.random()
    succ, fail = (False, True) if r < 0.6 else (True, False) if r < 0.82 else (False, False) if r < 0.95 else (True, True)
    return {"k": "sp", "succ": succ, "fail": fail}


def gen_sync_case(rng: Any, n: int) -> dict:
    """Events for the sync seam: boundary-focused time steps (data-age bounds, block expiry ± one quantum), timer
    events mostly placed exactly one max-age after the stream's last arrival, bursts of failures around expiries."""
    max_age = rng.choice([2 * SEC, 5 * SEC, 10 * SEC])
    max_blk = rng.choice([1 * SEC, 4 * SEC, 30 * SEC])
    t0 = rng.choice([0, SEC])
    ts0 = rng.choice([t0 - 100 * SEC, t0, t0 + 100 * SEC, t0 - max_age, t0 - max_age + Q])
    p_bad = rng.choice([0.05, 0.2, 0.35])
    p_sp = rng.choice([0.15, 0.3, 0.5])
    now = t0
    arrival = {"bat": None, "inv": None}
    streak = None  # generator-side guess of (k, until), only used to aim the time steps
    events = []
    for _ in range(n):
        steps = [0, Q, 4 * Q, SEC, SEC, 2 * SEC, 4 * SEC, max_age - Q, max_age, max_age + Q]
        if streak is not None and streak[1] > now:
            steps += [streak[1] - now - Q, streak[1] - now, streak[1] - now + Q] * 3
        now += max(0, rng.choice(steps))
        r = rng.random()
        if r < p_sp:
            ev = gen_sp(rng)
            if ev["succ"]:
                streak = None
            elif ev["fail"]:
                if streak is None:
                    streak = (0, now + min(MIN_BLOCK, max_blk))
                elif now >= streak[1]:
                    streak = (streak[0] + 1, now + min(2 ** (streak[0] + 1) * MIN_BLOCK, max_blk))
        elif r < p_sp + (1 - p_sp) * 0.4:
            ev = gen_facts(rng, "bat", max_age, p_bad)
        elif r < p_sp + (1 - p_sp) * 0.75:
            ev = gen_facts(rng, "inv", max_age, p_bad)
        else:
            s = rng.choice(["bat", "inv"])
            ev = {"k": s + "T"}
            if arrival[s] is not None and rng.random() < 0.6:
                now = max(now, arrival[s] + max_age + rng.choice([0, 0, 0, Q, -Q]))
        if ev["k"] in ("bat", "inv"):
            ev["ts"] = now - ev.pop("delay")
            arrival[ev["k"]] = now
        ev["now"] = now
        events.append(ev)
    return {"mode": "sync", "maxAge": max_age, "maxBlk": max_blk, "ts0": ts0, "t0": t0, "events": events}


def gen_actor_case(rng: Any, n: int, races: bool = False) -> dict:
    """Timed actions for the running actor.  Action kinds live on different residues of the time grid so that two
    actions never coincide; with `races` battery/inverter messages are placed exactly on timer due times."""
    quiet = rng.random() < 0.5  # mostly short gaps: long healthy stretches with blocking; else many silences
    max_age = 5 * SEC if quiet else rng.choice([2 * SEC, 5 * SEC])
    max_blk = rng.choice([1 * SEC, 4 * SEC, 30 * SEC])
    t0 = 0
    ts0 = rng.choice([-100 * SEC, 100 * SEC, -max_age])
    residue = {"bat": 1, "inv": 2, "sp": 3, "obs": 0}
    t = 0
    last_arr = {"bat": None, "inv": None}
    actions = []
    for _ in range(n):
        r = rng.random()
        kind = "bat" if r < 0.32 else "inv" if r < 0.62 else "sp" if r < 0.82 else "obs"
        if quiet:
            gap = rng.choice([0, 0, 4 * Q, 4 * Q, SEC, SEC, SEC + 4 * Q, 2 * SEC, 2 * SEC, max_age + SEC])
        else:
            gap = rng.choice([4 * Q, SEC, 2 * SEC, max_age - SEC, max_age, max_age + 4 * Q, max_age + SEC, 2 * max_age + SEC])
        t2 = (t + gap) // (4 * Q) * (4 * Q) + residue[kind] * Q
        if races and kind in ("bat", "inv") and last_arr[kind] is not None and rng.random() < 0.5:
            t2 = max(t2, last_arr[kind] + max_age * rng.choice([1, 1, 2]))
        while t2 <= t:
            t2 += 4 * Q
        t = t2
        if kind == "obs":
            actions.append({"t": t, "ev": None})
            continue
        ev = gen_sp(rng) if kind == "sp" else gen_facts(rng, kind, max_age, p_bad=0.08 if quiet else 0.2)
        if kind in ("bat", "inv"):
            last_arr[kind] = t
        actions.append({"t": t, "ev": ev})
    actions.append({"t": t + 2 * max_age + 5 * Q + 8 * Q, "ev": None})
    return {"mode": "actor", "maxAge": max_age, "maxBlk": max_blk, "ts0": ts0, "t0": t0, "actions": actions}


GOOD_BAT = {"k": "bat", "state": "IDLE", "relay": "CLOSED", "errs": [], "nan": False}
GOOD_INV = {"k": "inv", "state": "IDLE", "relay": "UNSPECIFIED", "errs": [], "nan": False}


def gen_long_failures_sync(rng: Any) -> dict:
    """A healthy battery whose commands keep failing: 50-80 consecutive effective failures, each after the previous
    block has expired (at the expiry, one quantum or 1 s later), no success in between; inside some blocks a healthy
    message or another (ineffective) failure one quantum before the expiry.  Then a success and one more failure
    (the back-off starts over), and a message after the last expiry (WORKING again)."""
    max_age = rng.choice([2 * SEC, 5 * SEC, 10 * SEC])
    max_blk = rng.choice([1 * SEC, 4 * SEC, 30 * SEC, 30 * SEC])
    events: list[dict] = [dict(GOOD_BAT, now=Q, ts=Q), dict(GOOD_INV, now=2 * Q, ts=2 * Q)]
    now = SEC
    until = now
    for k in range(rng.randint(50, 80)):
        events.append({"k": "sp", "succ": False, "fail": True, "now": now})
        until = now + min((2 ** k) * MIN_BLOCK, max_blk)
        r = rng.random()
        if r < 0.3 and until - now > 2 * Q:
            s = rng.choice(["bat", "inv"])
            t = now + rng.choice([Q, (until - now) // 2 // Q * Q])
            events.append(dict(GOOD_BAT if s == "bat" else GOOD_INV, now=t, ts=t))
        if r > 0.8 and until - now > Q:
            events.append({"k": "sp", "succ": False, "fail": True, "now": until - Q})
        now = until + rng.choice([0, 0, Q, SEC])
    events.append({"k": "sp", "succ": True, "fail": False, "now": now})
    events.append({"k": "sp", "succ": False, "fail": True, "now": now + Q})
    events.append(dict(GOOD_BAT, now=now + 2 * Q, ts=now + 2 * Q))
    t = now + Q + min(MIN_BLOCK, max_blk)
    events.append(dict(GOOD_INV, now=t, ts=t))
    return {"mode": "sync", "maxAge": max_age, "maxBlk": max_blk, "ts0": -100 * SEC, "t0": 0, "events": events}


def gen_long_failures_actor(rng: Any) -> dict:
    """The same history for the running actor (real `select`, timers, channels on the virtual clock): fresh healthy
    battery and inverter data every 2 s, 50-60 failed commands, each 1/2 s or 1 s after the previous block expired."""
    max_age = 5 * SEC
    max_blk = rng.choice([1 * SEC, 4 * SEC])
    t = 2 * SEC + 3 * Q
    sp_times = []
    for k in range(rng.randint(50, 60)):
        sp_times.append(t)
        t += min((2 ** k) * MIN_BLOCK, max_blk) + 4 * Q * rng.choice([1, 1, 2])
    end = t + 2 * SEC
    actions: list[dict] = [{"t": x, "ev": {"k": "sp", "succ": False, "fail": True}} for x in sp_times]
    for tt in range(0, end, 2 * SEC):
        actions.append({"t": tt + Q, "ev": dict(GOOD_BAT, delay=0)})
        actions.append({"t": tt + 2 * Q, "ev": dict(GOOD_INV, delay=0)})
    actions.sort(key=lambda a: a["t"])
    actions.append({"t": end // (4 * Q) * (4 * Q) + 2 * max_age + 12 * Q, "ev": None})
    return {"mode": "actor", "maxAge": max_age, "maxBlk": max_blk, "ts0": -100 * SEC, "t0": 0, "actions": actions}


def actor_backoff_oracle(case: dict, notes: list[list]) -> list[tuple[str, Any, str | None]]:
    """Back-off clause on an actor run, from the notifications (with their virtual times) and the scripted commands:
    a failed command for a battery that is reported usable and whose previous block (if any) has elapsed must not leave
    it reported WORKING; the period doubles up to the maximum and starts over after a success or a recovery.
    Instants at which the status also passes through NOT_WORKING are not judged."""
    viol: list[tuple[str, Any, str | None]] = []
    status, streak, j = NW, None, 0
    for act in case["actions"]:
        t, ev = act["t"], act.get("ev")
        while j < len(notes) and notes[j][0] < t:
            if status == NW and notes[j][1] != NW:
                streak = None
            status = notes[j][1]
            j += 1
        before = status
        at = []
        while j < len(notes) and notes[j][0] == t:
            if status == NW and notes[j][1] != NW:
                streak = None
            status = notes[j][1]
            at.append(status)
            j += 1
        if ev is None or ev["k"] != "sp":
            continue
        if ev["succ"]:
            streak = None
        elif ev["fail"] and before != NW and NW not in at:
            if streak is None or t >= streak[1]:
                kk = 0 if streak is None else streak[0] + 1
                streak = (kk, t + min((2 ** kk) * MIN_BLOCK, case["maxBlk"]))
                if status == WK:
                    viol.append(("backoff: a failed command left the battery reported WORKING",
                                 {"t": t, "streak": list(streak), "failure": kk + 1}, None))
    return viol


def actor_msg_on_tick(case: dict) -> bool:
    """Does some message arrive exactly at the instant its stream's data timer is due? (input-level race)"""
    due = {"bat": case["t0"] + case["maxAge"], "inv": case["t0"] + case["maxAge"]}
    for a in case["actions"]:
        for s in due:
            while due[s] < a["t"]:
                due[s] += case["maxAge"]
        ev = a.get("ev")
        if ev is not None and ev["k"] in due:
            if due[ev["k"]] == a["t"]:
                return True
            due[ev["k"]] = a["t"] + case["maxAge"]
    return False


def exh_alphabet(max_age: int, alt: bool = False) -> list[dict]:
    """The 9-letter alphabet of the bounded-exhaustive walk (every letter advances the clock by 1/2 s).
    Standard: battery ok / relay open / stale, inverter ok / critical error, both timer ticks, failure, success.
    Alternative: battery ok / NaN capacity / stamped 1 s in the future, inverter ok / bad state, ticks, failure,
    result naming the battery in both sets."""
    h = SEC // 2
    good_b = {"k": "bat", "state": "IDLE", "relay": "CLOSED", "errs": [], "nan": False}
    good_i = {"k": "inv", "state": "STANDBY", "relay": "UNSPECIFIED", "errs": ["WARN"], "nan": False}
    if alt:
        return [
            dict(good_b, dt=h, delay=0, state="DISCHARGING"),
            dict(good_b, dt=h, delay=0, nan=True),
            dict(good_b, dt=h, delay=-SEC),
            dict(good_i, dt=h, delay=0, errs=[]),
            dict(good_i, dt=h, delay=0, state="SWITCHING_OFF"),
            {"k": "batT", "dt": h},
            {"k": "invT", "dt": h},
            {"k": "sp", "dt": h, "succ": False, "fail": True},
            {"k": "sp", "dt": h, "succ": True, "fail": True},
        ]
    return [
        dict(good_b, dt=h, delay=0),
        dict(good_b, dt=h, delay=0, relay="OPENED"),
        dict(good_b, dt=h, delay=max_age + Q),
        dict(good_i, dt=h, delay=0),
        dict(good_i, dt=h, delay=0, errs=["CRITICAL"]),
        {"k": "batT", "dt": h},
        {"k": "invT", "dt": h},
        {"k": "sp", "dt": h, "succ": False, "fail": True},
        {"k": "sp", "dt": h, "succ": True, "fail": False},
    ]
