"""C11 — distributed power = regular target + operating-point target, inside the latest bounds.

The REAL `PowerManagingActor` runs on an `async_solipsism` loop with real `Broadcast` channels; only
`_add_system_bounds_tracker` (which would build a whole battery pool) is replaced by a harness
version that feeds `_bounds_tracker` from a harness channel.  Events are delivered one at a time and
the loop is allowed to settle after each.

Oracle (independent of the Lean model), after every event that produced a request r:
  sum    : r == (target in the latest regular report or 0) + (target in the latest op report or 0)
  bounds : latest inclusion bounds [L, U] (in-domain: L <= 0 <= U)  =>  L <= r <= U
Correspondence: requests, stored/reported targets and the reported bounds for a set of priorities
vs the Lean model (`Model/PowerManager.lean`), exact.
"""
from __future__ import annotations

import asyncio
import dataclasses
import json
import pathlib
from fractions import Fraction
from unittest import mock

from . import matryoshka_gen as g
from .common import Ctx, python_flags, rat

RULE = ("histories of 4-30 events (regular/op proposals from several actors and priorities, in-domain bounds updates — stamped with "
        "increasing, equal and OLDER timestamps than the previous update; every update replaces the bounds — that "
        "widen/shrink/shift, Success/PartialFailure/Error results, clock advances across the 1 s drop timer incl. >60 s "
        "expiry); non-trivial = contains both a regular and an op proposal and a bounds update after them; distinct by hash")


def gen_history(rng) -> dict:
    anchors = g.lattice(rng)
    prios = sorted({rng.randint(-2, 5) for _ in range(rng.randint(1, 3))})
    n = rng.randint(4, 30)
    now = Fraction(0)
    events: list[dict] = []
    ts = [rng.randint(0, 50)]

    def bounds_event() -> dict:
        # the timestamp the bounds carry (seconds): mostly increasing, sometimes equal, sometimes OLDER than the previous
        # update (the pool stamps bounds with the newest data timestamp among the working batteries, which can go back)
        ts[0] += rng.choice([1, 1, 1, 2, 7, 0, 0, -1, -1, -4, -30])
        return {"ev": "bounds", "sb": _gen_sb(rng, anchors), "ts": ts[0]}
    if rng.random() < 0.85:
        events.append(bounds_event())
    for _ in range(n):
        r = rng.random()
        if r < 0.5:
            p = g.gen_proposal(rng, anchors, now, prios, conflict_free_hint=True)
            p["src"] = rng.choice(["a", "b", "c"])
            events.append({"ev": "proposal", "p": p, "op": rng.random() < 0.45})
        elif r < 0.72:
            events.append(bounds_event())
        elif r < 0.87:
            # `which`: the result answers the k-th latest request (stale results for superseded requests happen)
            events.append({"ev": "result", "kind": rng.choice(["success", "partial", "partial", "error"]),
                           "which": rng.choice([0, 0, 0, 1, 2, 4])})
        else:
            d = rng.choice([1, 1, 2, 3, 30, 61, 62])
            for _k in range(d):
                now = now + 1
                events.append({"ev": "drop", "now": rat(now)})
    return {"prios": prios, "events": events}


def _gen_sb(rng, anchors) -> dict:
    sb = g.gen_sb(rng, anchors, in_domain=True)
    if sb["incl"] is None and rng.random() < 0.6:  # keep "no inclusion bounds" rare
        sb = g.gen_sb(rng, anchors, in_domain=True)
    return sb


async def _settle(n: int = 30) -> None:
    for _ in range(n):
        await asyncio.sleep(0)


async def _drive(case: dict) -> list[dict]:
    from frequenz.channels import Broadcast
    from frequenz.client.microgrid import ComponentCategory
    from frequenz.sdk._internal._channels import ChannelRegistry
    from frequenz.sdk.microgrid import _power_distributing as pd
    from frequenz.sdk.microgrid._power_managing._base_classes import ReportRequest, _Report
    from frequenz.sdk.microgrid._power_managing._power_managing_actor import PowerManagingActor
    from frequenz.sdk.timeseries._base_types import SystemBounds
    from datetime import datetime, timedelta, timezone

    cids = g._CIDS
    proposals = Broadcast(name="proposals")
    subs = Broadcast(name="subs")
    requests = Broadcast(name="requests")
    results = Broadcast(name="results")
    bounds_ch = Broadcast(name="bounds")
    registry = ChannelRegistry(name="registry")

    def fake_add(self, component_ids):
        self._system_bounds[component_ids] = SystemBounds(
            timestamp=datetime.now(tz=timezone.utc), inclusion_bounds=None, exclusion_bounds=None)
        self._bound_tracker_tasks[component_ids] = asyncio.create_task(
            self._bounds_tracker(component_ids, bounds_ch.new_receiver()))

    req_rx = requests.new_receiver(limit=1000)
    outs: list[dict] = []
    with mock.patch.object(PowerManagingActor, "_add_system_bounds_tracker", fake_add):
        actor = PowerManagingActor(
            proposals_receiver=proposals.new_receiver(limit=1000),
            bounds_subscription_receiver=subs.new_receiver(limit=1000),
            power_distributing_requests_sender=requests.new_sender(),
            power_distributing_results_receiver=results.new_receiver(limit=1000),
            channel_registry=registry,
            component_category=ComponentCategory.BATTERY,
        )
        actor.start()
        await _settle()
        rep_rx = {}
        for pr in case["prios"]:
            for is_op in (True, False):
                rr = ReportRequest(source_id=f"h{pr}{is_op}", component_ids=cids, priority=pr, set_operating_point=is_op)
                # one receiver per (priority, kind): the channel name includes `set_operating_point`
                rep_rx[(pr, is_op)] = registry.get_or_create(_Report, rr.get_channel_name()).new_receiver(limit=1000)
                await subs.new_sender().send(rr)
                await _settle()
        psend, bsend, rsend = proposals.new_sender(), bounds_ch.new_sender(), results.new_sender()
        all_requests: list = []
        n_bounds = 0
        t0 = datetime(2024, 1, 1, tzinfo=timezone.utc)
        loop = asyncio.get_running_loop()
        for ev in case["events"]:
            kind = ev["ev"]
            if kind == "proposal":
                p = dict(ev["p"])
                await psend.send(g.mk_proposal(p, set_op_point=ev["op"]))
            elif kind == "bounds":
                n_bounds += 1
                stamp = t0 + timedelta(seconds=ev.get("ts", n_bounds))  # corpus cases without "ts": increasing
                await bsend.send(dataclasses.replace(g.mk_sb(ev["sb"]), timestamp=stamp))
            elif kind == "result":
                k = min(ev.get("which", 0), len(all_requests) - 1)
                req = (all_requests[-1 - k] if all_requests
                       else pd.Request(power=g.to_power("0"), component_ids=cids, adjust_power=True))
                if ev["kind"] == "success":
                    res = pd.Success(request=req, succeeded_power=req.power, succeeded_components=set(cids),
                                     excess_power=g.to_power("0"))
                elif ev["kind"] == "partial":
                    res = pd.PartialFailure(request=req, succeeded_power=g.to_power("0"), succeeded_components=set(),
                                            failed_power=req.power, failed_components=set(cids),
                                            excess_power=g.to_power("0"))
                else:
                    res = pd.Error(request=req, msg="scripted error")
                await rsend.send(res)
            elif kind == "drop":
                target = float(Fraction(ev["now"]))
                delay = target - loop.time()
                assert delay > 0, (target, loop.time())
                await asyncio.sleep(delay)
            await _settle()
            # collect
            reqs = []
            while True:
                try:
                    r = req_rx.consume() if req_rx._q else None  # noqa: SLF001
                except Exception:  # pylint: disable=broad-except
                    r = None
                if r is None:
                    break
                reqs.append(r)
            all_requests.extend(reqs)
            reg_rep, op_rep, reg_t, op_t, seen = [], [], None, None, False
            anomalies: list = []
            for pr in case["prios"]:
                latest = {}
                for is_op in (True, False):
                    rx = rep_rx[(pr, is_op)]
                    msgs = []
                    while rx._q:  # noqa: SLF001
                        msgs.append(rx.consume())
                    if msgs:
                        latest[is_op] = msgs
                if latest:
                    seen = True
                    if len(latest) != 2 or any(len(m) != len(latest[True]) for m in latest.values()):
                        anomalies.append({"prio": pr, "op_msgs": len(latest.get(True, [])), "reg_msgs": len(latest.get(False, []))})
                    op_m = latest.get(True, [None])[-1]
                    reg_m = latest.get(False, [None])[-1]
                    op_rep.append(None if op_m is None or op_m.bounds is None else [g.from_power(op_m.bounds.lower), g.from_power(op_m.bounds.upper)])
                    reg_rep.append(None if reg_m is None or reg_m.bounds is None else [g.from_power(reg_m.bounds.lower), g.from_power(reg_m.bounds.upper)])
                    op_t = None if op_m is None else g.from_power(op_m.target_power)
                    reg_t = None if reg_m is None else g.from_power(reg_m.target_power)
            outs.append({
                "req": [g.from_power(r.power) for r in reqs],
                "reg": g.from_power(actor._set_power_group.get_target_power(cids)),  # noqa: SLF001
                "op": g.from_power(actor._set_op_power_group.get_target_power(cids)),  # noqa: SLF001
                "regRep": reg_rep if seen else None, "opRep": op_rep if seen else None,
                "reported": [reg_t, op_t] if seen else None,
                "report_anomalies": anomalies,
            })
        await actor.stop()
    return outs


def run_impl(case: dict) -> list[dict]:
    import async_solipsism

    loop = async_solipsism.EventLoop()
    try:
        asyncio.set_event_loop(loop)
        return loop.run_until_complete(_drive(case))
    finally:
        asyncio.set_event_loop(None)
        loop.close()


def check_case(ctx: Ctx, case: dict) -> dict:
    outs = run_impl(case)
    sb = None
    tags = set()
    seen_reg = seen_op = after = False
    for i, (ev, o) in enumerate(zip(case["events"], outs)):
        if ev["ev"] == "bounds":
            sb = ev["sb"]
            if seen_reg and seen_op:
                after = True
        if ev["ev"] == "proposal":
            seen_op |= ev["op"]
            seen_reg |= not ev["op"]
        if o.get("report_anomalies"):
            ctx.violation("each subscription receives exactly its own reports (op and regular report channels are distinct)",
                          {"prios": case["prios"], "events": case["events"][: i + 1]}, o["report_anomalies"])
        if len(o["req"]) > 1:
            ctx.violation("one-request-per-event", {"prios": case["prios"], "events": case["events"][: i + 1]}, o)
        for r in o["req"]:
            r = Fraction(r)
            prefix = {"prios": case["prios"], "events": case["events"][: i + 1]}
            if o["reported"] is not None:
                reg_t, op_t = o["reported"]
                s = (Fraction(reg_t) if reg_t is not None else 0) + (Fraction(op_t) if op_t is not None else 0)
                if r != s:
                    ctx.violation("request = reported regular target + reported op target", prefix,
                                  {"request": rat(r), "reported_regular": reg_t, "reported_op": op_t})
            if sb is not None and sb["incl"] is not None and g.sb_in_domain(sb):
                lo, hi = map(Fraction, sb["incl"])
                if not lo <= r <= hi:
                    ctx.violation("request inside latest inclusion bounds", prefix, {"request": rat(r), "incl": sb["incl"]})
            tags.add("request")
    if seen_reg and seen_op:
        tags.add("both-groups")
    if after:
        tags.add("bounds-update-after-both")
    stamps = [ev.get("ts") for ev in case["events"] if ev["ev"] == "bounds" and "ts" in ev]
    if any(b < a for a, b in zip(stamps, stamps[1:])):
        tags.add("bounds-older-timestamp")
    if any(b == a for a, b in zip(stamps, stamps[1:])):
        tags.add("bounds-equal-timestamp")
    if any(e["ev"] == "drop" and Fraction(e["now"]) > 60 for e in case["events"]):
        tags.add("expiry")
    if any(e["ev"] == "result" and e["kind"] == "partial" for e in case["events"]):
        tags.add("partial-failure")
    ctx.case(case, tags=sorted(tags), nontrivial=after)
    # canonical form for the model comparison
    canon_outs = []
    for o in outs:
        canon_outs.append({"req": o["req"][-1] if o["req"] else None, "reg": o["reg"], "op": o["op"],
                           "regRep": o["regRep"], "opRep": o["opRep"]})
    return {"out": canon_outs}


def load_corpus() -> list[dict]:
    d = pathlib.Path(__file__).resolve().parent.parent / "corpus" / "C11"
    return [json.loads(p.read_text()) for p in sorted(d.glob("*.json"))] if d.exists() else []


def run(ctx: Ctx) -> None:
    python_flags()
    ctx.rule = RULE
    cases = load_corpus()
    for i in range(ctx.budget(250, 6000)):
        cases.append(gen_history(ctx.subrng("history", i)))
    impl = [check_case(ctx, c) for c in cases]
    ctx.compare("PowerManager", cases, impl, what="PowerManagingActor requests / targets / reports")
    from . import powerpath  # full-stack stage: the same property through the public pool API (real actors)
    powerpath.run_stage(ctx, {"C11-sum"}, n_quick=60, n_thorough=800)


def replay(ctx: Ctx, data: dict) -> None:
    python_flags()
    case = data.get("case") or {}
    if "events" in case:
        out = check_case(ctx, case)
        ctx.compare("PowerManager", [case], [out])
    else:
        run(ctx)
